GOENV = GOFLAGS=-mod=mod GOPROXY=off GOSUMDB=off GOTOOLCHAIN=local CGO_ENABLED=0

setup:
	mkdir -p .build evidence replays
	cd tools/rewrite && $(GOENV) go build -o ../../.build/rewrite .
	# warm the Go build cache with one harness build (also proves the overlay pipeline works offline)
	bin/check build c01 >/dev/null

# litmus suite of the scheduler and shims (expected outcome sets)
litmus:
	bin/check build litmus >/dev/null
	.build/manual/harness-litmus

.PHONY: setup litmus
