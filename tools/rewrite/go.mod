module verif/rewrite

go 1.22
