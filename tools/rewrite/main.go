// Command rewrite is the mechanical source-to-source pass of E1 (DESIGN.md
// §1.1): it substitutes the imports sync, sync/atomic, time, context and
// math/rand by the verifshim packages (keeping the local name) and rewrites
// the language-level concurrency constructs (go, send, receive, close, select,
// range over a channel expression that is syntactically a receive-only use)
// into vrt calls. It uses go/parser and go/printer only. Any construct it
// does not recognise is a hard error (exit 2), never silently skipped.
//
// usage: rewrite -repo /repo -out DIR pkgdir...   (writes DIR/<pkgdir>/<file>.go and prints the overlay pairs)
package main

import (
	"bytes"
	"flag"
	"fmt"
	"go/ast"
	"go/parser"
	"go/printer"
	"go/token"
	"os"
	"path/filepath"
	"reflect"
	"strconv"
	"strings"
)

const shimBase = "github.com/form3tech-oss/f1/v2/internal/verifshim/"

var importMap = map[string]string{
	"sync":        shimBase + "vsync",
	"sync/atomic": shimBase + "vatomic",
	"time":        shimBase + "vtime",
	"context":     shimBase + "vctx",
	"math/rand":   shimBase + "vrand",
}

// per-package overrides of the import map
var importOverride = map[string]map[string]string{
	"pkg/f1/testing": {"sync/atomic": shimBase + "vatomict"},
}

const vrtName = "__vrt"

func fail(format string, a ...any) {
	fmt.Fprintf(os.Stderr, "rewrite: "+format+"\n", a...)
	os.Exit(2)
}

type rw struct {
	inList  bool
	fset    *token.FileSet
	n       int
	usedVrt bool
	file    string
	pkg     string
}

func (r *rw) tmp(prefix string) *ast.Ident {
	r.n++
	return ast.NewIdent(fmt.Sprintf("__%s%d", prefix, r.n))
}

func (r *rw) vrt(fn string, args ...ast.Expr) *ast.CallExpr {
	r.usedVrt = true
	return &ast.CallExpr{Fun: &ast.SelectorExpr{X: ast.NewIdent(vrtName), Sel: ast.NewIdent(fn)}, Args: args}
}

func (r *rw) pos(n ast.Node) string { return r.fset.Position(n.Pos()).String() }

var (
	exprType = reflect.TypeOf((*ast.Expr)(nil)).Elem()
	stmtType = reflect.TypeOf((*ast.Stmt)(nil)).Elem()
	nodeType = reflect.TypeOf((*ast.Node)(nil)).Elem()
)

// walk rewrites the children of node n in place (post-order for expressions,
// with statements handled by rewriteStmt before descending).
func (r *rw) walk(n ast.Node) {
	if n == nil || reflect.ValueOf(n).IsNil() {
		return
	}
	v := reflect.ValueOf(n)
	if v.Kind() != reflect.Ptr || v.Elem().Kind() != reflect.Struct {
		return
	}
	s := v.Elem()
	for i := 0; i < s.NumField(); i++ {
		f := s.Field(i)
		if !f.CanSet() {
			continue
		}
		switch f.Kind() {
		case reflect.Interface:
			if f.IsNil() {
				continue
			}
			switch {
			case f.Type() == exprType:
				f.Set(reflect.ValueOf(r.expr(f.Interface().(ast.Expr))))
			case f.Type() == stmtType:
				r.inList = false // Init / Post / Else / labelled statement: a block cannot stand here
				f.Set(reflect.ValueOf(r.stmt(f.Interface().(ast.Stmt))))
			case f.Type().Implements(nodeType):
				if nn, ok := f.Interface().(ast.Node); ok {
					r.walk(nn)
				}
			}
		case reflect.Ptr:
			if f.IsNil() {
				continue
			}
			if nn, ok := f.Interface().(ast.Node); ok {
				if _, isObj := f.Interface().(*ast.Object); isObj {
					continue
				}
				if _, isScope := f.Interface().(*ast.Scope); isScope {
					continue
				}
				r.walk(nn)
			}
		case reflect.Slice:
			for j := 0; j < f.Len(); j++ {
				e := f.Index(j)
				switch {
				case e.Type() == exprType:
					if !e.IsNil() {
						e.Set(reflect.ValueOf(r.expr(e.Interface().(ast.Expr))))
					}
				case e.Type() == stmtType:
					if !e.IsNil() {
						r.inList = true
						e.Set(reflect.ValueOf(r.stmt(e.Interface().(ast.Stmt))))
					}
				default:
					if e.Kind() == reflect.Ptr || e.Kind() == reflect.Interface {
						if e.IsNil() {
							continue
						}
						if nn, ok := e.Interface().(ast.Node); ok {
							r.walk(nn)
						}
					}
				}
			}
		}
	}
}

func isRecv(e ast.Expr) (*ast.UnaryExpr, bool) {
	for {
		p, ok := e.(*ast.ParenExpr)
		if !ok {
			break
		}
		e = p.X
	}
	u, ok := e.(*ast.UnaryExpr)
	return u, ok && u.Op == token.ARROW
}

func (r *rw) expr(e ast.Expr) ast.Expr {
	switch x := e.(type) {
	case *ast.UnaryExpr:
		if x.Op == token.ARROW {
			return r.vrt("Recv", r.expr(x.X))
		}
	case *ast.CallExpr:
		if id, ok := x.Fun.(*ast.Ident); ok && id.Name == "close" && len(x.Args) == 1 && id.Obj == nil {
			return r.vrt("Close", r.expr(x.Args[0]))
		}
	}
	r.walk(e)
	return e
}

// extSync: methods of thread-safe objects of packages that are not rewritten
// (Prometheus vectors). A call to one is a synchronisation operation - the
// vector takes its own lock - so it is a place where another goroutine can have
// run since this one prepared the call's arguments. Statements containing such a
// call get a conditional scheduling point in front (vrt.ExtCall, active only in
// scenarios that ask for it).
var extSync = map[string]bool{"WithLabelValues": true, "GetMetricWithLabelValues": true, "With": true, "GetMetricWith": true}

func callsExtSync(n ast.Node) (name string) {
	ast.Inspect(n, func(m ast.Node) bool {
		if _, isLit := m.(*ast.FuncLit); isLit {
			return false
		}
		if c, ok := m.(*ast.CallExpr); ok {
			if sel, ok := c.Fun.(*ast.SelectorExpr); ok && extSync[sel.Sel.Name] {
				name = sel.Sel.Name
			}
		}
		return name == ""
	})
	return
}

// heapish: an assignable expression that is not a plain identifier - a field, an
// element, a dereference: memory other goroutines may reach.
func heapish(e ast.Expr) bool {
	switch x := e.(type) {
	case *ast.ParenExpr:
		return heapish(x.X)
	case *ast.SelectorExpr, *ast.IndexExpr, *ast.StarExpr:
		return true
	}
	return false
}

// pure: no calls, receives or function literals - evaluating it twice is harmless.
func pure(e ast.Expr) bool {
	ok := true
	ast.Inspect(e, func(n ast.Node) bool {
		switch x := n.(type) {
		case *ast.CallExpr, *ast.FuncLit:
			ok = false
		case *ast.UnaryExpr:
			if x.Op == token.ARROW {
				ok = false
			}
		}
		return ok
	})
	return ok
}

var opOf = map[token.Token]token.Token{token.ADD_ASSIGN: token.ADD, token.SUB_ASSIGN: token.SUB, token.MUL_ASSIGN: token.MUL, token.QUO_ASSIGN: token.QUO,
	token.REM_ASSIGN: token.REM, token.AND_ASSIGN: token.AND, token.OR_ASSIGN: token.OR, token.XOR_ASSIGN: token.XOR, token.SHL_ASSIGN: token.SHL,
	token.SHR_ASSIGN: token.SHR, token.AND_NOT_ASSIGN: token.AND_NOT}

// plainWrite: writes to fields, elements and dereferences get a conditional
// scheduling point (vrt.Plain, active only in scenarios that ask for it) in front;
// a read-modify-write (x.f++, x.f += v) is split into read, point, write, which is
// what two goroutines doing it without synchronisation can interleave as.
func (r *rw) plainWrite(s ast.Stmt) ast.Stmt {
	mkPoint := func() ast.Stmt { return &ast.ExprStmt{X: r.vrt("Plain")} }
	switch x := s.(type) {
	case *ast.IncDecStmt:
		if !heapish(x.X) || !pure(x.X) {
			return nil
		}
		t := r.tmp("pw")
		op := token.ADD
		if x.Tok == token.DEC {
			op = token.SUB
		}
		return &ast.BlockStmt{List: []ast.Stmt{
			&ast.AssignStmt{Lhs: []ast.Expr{t}, Tok: token.DEFINE, Rhs: []ast.Expr{x.X}},
			mkPoint(),
			&ast.AssignStmt{Lhs: []ast.Expr{x.X}, Tok: token.ASSIGN, Rhs: []ast.Expr{&ast.BinaryExpr{X: t, Op: op, Y: &ast.BasicLit{Kind: token.INT, Value: "1"}}}},
		}}
	case *ast.AssignStmt:
		if x.Tok == token.DEFINE {
			return nil
		}
		any := false
		for _, l := range x.Lhs {
			if heapish(l) {
				any = true
			}
		}
		if !any {
			return nil
		}
		if op, isOp := opOf[x.Tok]; isOp && len(x.Lhs) == 1 && len(x.Rhs) == 1 && pure(x.Lhs[0]) && pure(x.Rhs[0]) {
			t := r.tmp("pw")
			return &ast.BlockStmt{List: []ast.Stmt{
				&ast.AssignStmt{Lhs: []ast.Expr{t}, Tok: token.DEFINE, Rhs: []ast.Expr{x.Lhs[0]}},
				mkPoint(),
				&ast.AssignStmt{Lhs: []ast.Expr{x.Lhs[0]}, Tok: token.ASSIGN, Rhs: []ast.Expr{&ast.BinaryExpr{X: t, Op: op, Y: &ast.ParenExpr{X: x.Rhs[0]}}}},
			}}
		}
		return &ast.BlockStmt{List: []ast.Stmt{mkPoint(), r.stmt1(s)}}
	}
	return nil
}

func (r *rw) stmt(s ast.Stmt) ast.Stmt {
	inList := r.inList
	r.inList = false
	if !inList {
		return r.stmt1(s)
	}
	wrap := ""
	switch x := s.(type) {
	case *ast.ExprStmt, *ast.ReturnStmt:
		wrap = callsExtSync(x)
	case *ast.AssignStmt:
		if x.Tok != token.DEFINE {
			wrap = callsExtSync(x)
		}
	}
	if wrap != "" {
		return &ast.BlockStmt{List: []ast.Stmt{
			&ast.ExprStmt{X: r.vrt("ExtCall", &ast.BasicLit{Kind: token.STRING, Value: strconv.Quote(wrap)})},
			r.stmt1(s),
		}}
	}
	if b := r.plainWrite(s); b != nil {
		return b
	}
	return r.stmt1(s)
}

func (r *rw) stmt1(s ast.Stmt) ast.Stmt {
	switch x := s.(type) {
	case *ast.SendStmt:
		return &ast.ExprStmt{X: r.vrt("Send", r.expr(x.Chan), r.expr(x.Value))}
	case *ast.GoStmt:
		return r.goStmt(x)
	case *ast.AssignStmt:
		if len(x.Lhs) == 2 && len(x.Rhs) == 1 {
			if u, ok := isRecv(x.Rhs[0]); ok {
				for i := range x.Lhs {
					x.Lhs[i] = r.expr(x.Lhs[i])
				}
				x.Rhs[0] = r.vrt("Recv2", r.expr(u.X))
				return x
			}
		}
	case *ast.DeclStmt:
		if gd, ok := x.Decl.(*ast.GenDecl); ok {
			for _, sp := range gd.Specs {
				if vs, ok := sp.(*ast.ValueSpec); ok && len(vs.Names) == 2 && len(vs.Values) == 1 {
					if u, ok := isRecv(vs.Values[0]); ok {
						vs.Values[0] = r.vrt("Recv2", r.expr(u.X))
					}
				}
			}
		}
	case *ast.DeferStmt:
		if id, ok := x.Call.Fun.(*ast.Ident); ok && id.Name == "close" && len(x.Call.Args) == 1 {
			x.Call = r.vrt("Close", r.expr(x.Call.Args[0]))
			return x
		}
	case *ast.SelectStmt:
		return r.selectStmt(x, nil)
	case *ast.LabeledStmt:
		if sel, ok := x.Stmt.(*ast.SelectStmt); ok {
			return r.selectStmt(sel, x.Label)
		}
	case *ast.RangeStmt:
		// A range over a channel cannot be told from other ranges without types
		// (f1 has none). Ranges with at most one iteration variable - the only
		// ones a channel can appear in - get their operand wrapped in the generic
		// identity __vrt.RangeArg, which stops the run with an infrastructure
		// error (exit 2) if the operand turns out to be a channel, instead of
		// letting an un-rewritten receive hang in the real runtime.
		if x.Value == nil && x.X != nil {
			x.X = r.vrt("RangeArg", r.expr(x.X))
			if x.Key != nil {
				x.Key = r.expr(x.Key)
			}
			r.walk(x.Body)
			return x
		}
	}
	r.walk(s)
	return s
}

func (r *rw) goStmt(g *ast.GoStmt) ast.Stmt {
	call := g.Call
	// go func(){...}() with no arguments: pass the literal
	if fl, ok := call.Fun.(*ast.FuncLit); ok && len(call.Args) == 0 {
		r.walk(fl)
		return &ast.ExprStmt{X: r.vrt("Go", fl)}
	}
	// general form: bind function value and arguments now, call later
	var lhs []ast.Expr
	var rhs []ast.Expr
	fn := r.tmp("f")
	lhs = append(lhs, fn)
	rhs = append(rhs, r.expr(call.Fun))
	newCall := &ast.CallExpr{Fun: fn, Ellipsis: call.Ellipsis}
	for _, a := range call.Args {
		if bl, ok := a.(*ast.BasicLit); ok {
			newCall.Args = append(newCall.Args, bl)
			continue
		}
		t := r.tmp("a")
		lhs = append(lhs, t)
		rhs = append(rhs, r.expr(a))
		newCall.Args = append(newCall.Args, t)
	}
	if call.Ellipsis != token.NoPos {
		newCall.Ellipsis = 1
	}
	body := &ast.FuncLit{Type: &ast.FuncType{Params: &ast.FieldList{}}, Body: &ast.BlockStmt{List: []ast.Stmt{&ast.ExprStmt{X: newCall}}}}
	return &ast.BlockStmt{List: []ast.Stmt{
		&ast.AssignStmt{Lhs: lhs, Tok: token.DEFINE, Rhs: rhs},
		&ast.ExprStmt{X: r.vrt("Go", body)},
	}}
}

func (r *rw) selectStmt(sel *ast.SelectStmt, label *ast.Ident) ast.Stmt {
	var pre []ast.Stmt
	var cases []ast.Expr
	var clauses []ast.Stmt
	hasDefault := false
	res := r.tmp("r")
	idx := 0
	for _, cl := range sel.Body.List {
		cc := cl.(*ast.CommClause)
		var bodyPre []ast.Stmt
		var tag ast.Expr
		switch comm := cc.Comm.(type) {
		case nil:
			hasDefault = true
			tag = &ast.UnaryExpr{Op: token.SUB, X: &ast.BasicLit{Kind: token.INT, Value: "1"}}
		case *ast.SendStmt:
			ch, val := r.tmp("c"), r.tmp("v")
			pre = append(pre, &ast.AssignStmt{Lhs: []ast.Expr{ch, val}, Tok: token.DEFINE, Rhs: []ast.Expr{r.expr(comm.Chan), r.expr(comm.Value)}})
			// the value's type must be the channel's element type: convert through CaseSend's type parameter
			cases = append(cases, r.vrt("CaseSend", ch, val))
			tag = &ast.BasicLit{Kind: token.INT, Value: strconv.Itoa(idx)}
			idx++
		case *ast.ExprStmt:
			u, ok := isRecv(comm.X)
			if !ok {
				fail("%s: select case is not a receive", r.pos(comm))
			}
			ch := r.tmp("c")
			pre = append(pre, &ast.AssignStmt{Lhs: []ast.Expr{ch}, Tok: token.DEFINE, Rhs: []ast.Expr{r.expr(u.X)}})
			cases = append(cases, r.vrt("CaseRecv", ch))
			tag = &ast.BasicLit{Kind: token.INT, Value: strconv.Itoa(idx)}
			idx++
		case *ast.AssignStmt:
			if len(comm.Rhs) != 1 {
				fail("%s: unsupported select receive", r.pos(comm))
			}
			u, ok := isRecv(comm.Rhs[0])
			if !ok {
				fail("%s: select case is not a receive", r.pos(comm))
			}
			ch := r.tmp("c")
			pre = append(pre, &ast.AssignStmt{Lhs: []ast.Expr{ch}, Tok: token.DEFINE, Rhs: []ast.Expr{r.expr(u.X)}})
			cases = append(cases, r.vrt("CaseRecv", ch))
			rhs := []ast.Expr{r.vrt("As", ch, &ast.SelectorExpr{X: res, Sel: ast.NewIdent("V")})}
			if len(comm.Lhs) == 2 {
				rhs = append(rhs, &ast.SelectorExpr{X: res, Sel: ast.NewIdent("OK")})
			} else if len(comm.Lhs) != 1 {
				fail("%s: unsupported select receive", r.pos(comm))
			}
			lhs := make([]ast.Expr, len(comm.Lhs))
			for i := range comm.Lhs {
				lhs[i] = r.expr(comm.Lhs[i])
			}
			bodyPre = append(bodyPre, &ast.AssignStmt{Lhs: lhs, Tok: comm.Tok, Rhs: rhs})
			if comm.Tok == token.DEFINE {
				// keep "declared and not used" from firing when the original relied on the comm clause scope
				for _, l := range lhs {
					if id, ok := l.(*ast.Ident); ok && id.Name != "_" {
						bodyPre = append(bodyPre, &ast.AssignStmt{Lhs: []ast.Expr{ast.NewIdent("_")}, Tok: token.ASSIGN, Rhs: []ast.Expr{ast.NewIdent(id.Name)}})
					}
				}
			}
			tag = &ast.BasicLit{Kind: token.INT, Value: strconv.Itoa(idx)}
			idx++
		default:
			fail("%s: unsupported select clause %T", r.pos(cc), cc.Comm)
		}
		body := make([]ast.Stmt, 0, len(cc.Body)+len(bodyPre))
		body = append(body, bodyPre...)
		for _, b := range cc.Body {
			body = append(body, r.stmt(b))
		}
		clauses = append(clauses, &ast.CaseClause{List: []ast.Expr{tag}, Body: body})
	}
	hd := "false"
	if hasDefault {
		hd = "true"
	}
	args := append([]ast.Expr{ast.NewIdent(hd)}, cases...)
	sw := &ast.SwitchStmt{
		Init: &ast.AssignStmt{Lhs: []ast.Expr{res}, Tok: token.DEFINE, Rhs: []ast.Expr{r.vrt("Select", args...)}},
		Tag:  &ast.SelectorExpr{X: res, Sel: ast.NewIdent("I")},
		Body: &ast.BlockStmt{List: clauses},
	}
	var swStmt ast.Stmt = sw
	if label != nil {
		swStmt = &ast.LabeledStmt{Label: label, Stmt: sw}
	}
	return &ast.BlockStmt{List: append(pre, swStmt)}
}

func (r *rw) file_(path string, src []byte) ([]byte, bool) {
	f, err := parser.ParseFile(r.fset, path, src, parser.ParseComments|parser.SkipObjectResolution)
	if err != nil {
		fail("%v", err)
	}
	// keep only build constraints and compiler directives: free-floating
	// comments would be re-attached at arbitrary places next to new nodes
	var keep []*ast.CommentGroup
	for _, g := range f.Comments {
		dir := g.End() < f.Package
		for _, c := range g.List {
			if strings.HasPrefix(c.Text, "//go:") {
				dir = true
			}
		}
		if dir {
			keep = append(keep, g)
		}
	}
	f.Comments = keep
	changed := false
	for _, imp := range f.Imports {
		p, _ := strconv.Unquote(imp.Path.Value)
		np, ok := importMap[p]
		if o, has := importOverride[r.pkg][p]; has {
			np, ok = o, true
		}
		if ok {
			if imp.Name == nil {
				imp.Name = ast.NewIdent(filepath.Base(p))
			}
			imp.Path.Value = strconv.Quote(np)
			imp.EndPos = 0
			changed = true
		}
	}
	r.usedVrt = false
	for _, d := range f.Decls {
		r.walk(d)
	}
	if r.usedVrt {
		changed = true
		// add the vrt import as its own declaration right after the package clause
		spec := &ast.ImportSpec{Name: ast.NewIdent(vrtName), Path: &ast.BasicLit{Kind: token.STRING, Value: strconv.Quote(shimBase + "vrt")}}
		gd := &ast.GenDecl{Tok: token.IMPORT, Specs: []ast.Spec{spec}}
		f.Decls = append([]ast.Decl{gd}, f.Decls...)
		f.Imports = append(f.Imports, spec)
	}
	if !changed {
		return src, false
	}
	var buf bytes.Buffer
	cfg := printer.Config{Mode: printer.SourcePos | printer.TabIndent | printer.UseSpaces, Tabwidth: 8}
	if err := cfg.Fprint(&buf, r.fset, f); err != nil {
		fail("print %s: %v", path, err)
	}
	return buf.Bytes(), true
}

func main() {
	repo := flag.String("repo", "/repo", "repository root")
	out := flag.String("out", "", "output directory")
	flag.Parse()
	if *out == "" {
		fail("-out required")
	}
	for _, pkg := range flag.Args() {
		dir := filepath.Join(*repo, pkg)
		ents, err := os.ReadDir(dir)
		if err != nil {
			fail("%v", err)
		}
		for _, e := range ents {
			name := e.Name()
			if e.IsDir() || !strings.HasSuffix(name, ".go") || strings.HasSuffix(name, "_test.go") {
				continue
			}
			path := filepath.Join(dir, name)
			src, err := os.ReadFile(path)
			if err != nil {
				fail("%v", err)
			}
			r := &rw{fset: token.NewFileSet(), file: path, pkg: pkg}
			res, changed := r.file_(path, src)
			if !changed {
				continue
			}
			dst := filepath.Join(*out, pkg, name)
			if err := os.MkdirAll(filepath.Dir(dst), 0o755); err != nil {
				fail("%v", err)
			}
			if err := os.WriteFile(dst, res, 0o644); err != nil {
				fail("%v", err)
			}
			fmt.Printf("%s\t%s\n", path, dst)
		}
	}
}
