// Package vatomict replaces sync/atomic in pkg/f1/testing only. The test
// handle's flags (failed, teardownFailed) are touched several times per
// iteration; making each a scheduling point would multiply every harness's
// state space for nothing, so here the operations are quiet single steps
// (still hashed) unless a harness sets Active: then they are full scheduling
// points, which is what lets a helper goroutine's t.Fail() land between two
// reads of the flag.
package vatomict

import "github.com/form3tech-oss/f1/v2/internal/verifshim/vatomic"

// Active makes the operations of handles first used after it was set full scheduling points.
var Active bool

type Bool struct {
	b    vatomic.Bool
	init bool
}

func (x *Bool) get() *vatomic.Bool {
	if !x.init {
		x.init = true
		x.b.SetQuiet(!Active)
	}
	return &x.b
}

func (x *Bool) Load() bool                    { return x.get().Load() }
func (x *Bool) Store(v bool)                  { x.get().Store(v) }
func (x *Bool) Swap(v bool) bool              { return x.get().Swap(v) }
func (x *Bool) CompareAndSwap(o, n bool) bool { return x.get().CompareAndSwap(o, n) }

type (
	Int32  = vatomic.Int32
	Int64  = vatomic.Int64
	Uint32 = vatomic.Uint32
	Uint64 = vatomic.Uint64
)
