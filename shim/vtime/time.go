// Package vtime replaces time in rewritten packages: one global virtual clock
// per execution, owned by the vrt scheduler. Duration and Time are aliases of
// the real types so values flow through un-rewritten code unchanged.
//
// Timer channels have capacity 1 and pre-Go-1.23 semantics (Stop does not
// drain), because f1's go.mod says go 1.22 and the toolchain therefore builds
// it with asynctimerchan=1.
package vtime

import (
	"time"

	"github.com/form3tech-oss/f1/v2/internal/verifshim/vrt"
)

type (
	Duration   = time.Duration
	Time       = time.Time
	Month      = time.Month
	Weekday    = time.Weekday
	Location   = time.Location
	ParseError = time.ParseError
)

const (
	Nanosecond  = time.Nanosecond
	Microsecond = time.Microsecond
	Millisecond = time.Millisecond
	Second      = time.Second
	Minute      = time.Minute
	Hour        = time.Hour

	Layout      = time.Layout
	ANSIC       = time.ANSIC
	UnixDate    = time.UnixDate
	RubyDate    = time.RubyDate
	RFC822      = time.RFC822
	RFC822Z     = time.RFC822Z
	RFC850      = time.RFC850
	RFC1123     = time.RFC1123
	RFC1123Z    = time.RFC1123Z
	RFC3339     = time.RFC3339
	RFC3339Nano = time.RFC3339Nano
	Kitchen     = time.Kitchen
	Stamp       = time.Stamp
	StampMilli  = time.StampMilli
	StampMicro  = time.StampMicro
	StampNano   = time.StampNano
	DateTime    = time.DateTime
	DateOnly    = time.DateOnly
	TimeOnly    = time.TimeOnly

	January   = time.January
	February  = time.February
	March     = time.March
	April     = time.April
	May       = time.May
	June      = time.June
	July      = time.July
	August    = time.August
	September = time.September
	October   = time.October
	November  = time.November
	December  = time.December

	Sunday    = time.Sunday
	Monday    = time.Monday
	Tuesday   = time.Tuesday
	Wednesday = time.Wednesday
	Thursday  = time.Thursday
	Friday    = time.Friday
	Saturday  = time.Saturday
)

var (
	UTC   = time.UTC
	Local = time.Local

	ParseDuration   = time.ParseDuration
	Parse           = time.Parse
	ParseInLocation = time.ParseInLocation
	Date            = time.Date
	Unix            = time.Unix
	UnixMilli       = time.UnixMilli
	UnixMicro       = time.UnixMicro
	FixedZone       = time.FixedZone
	LoadLocation    = time.LoadLocation
)

// Epoch is the wall-clock reading of virtual instant 0 (a Monday, 00:00 UTC,
// so window-aligned profiles start on a boundary).
var Epoch = time.Date(2024, 1, 1, 0, 0, 0, 0, time.UTC)

func init() {
	vrt.TimeValue = func(ns int64) any { return Epoch.Add(time.Duration(ns)) }
}

func at(ns int64) Time { return Epoch.Add(time.Duration(ns)) }

// Now reads the virtual clock. It is not a scheduling point (the clock only
// moves at scheduler steps) but the value read is folded into the thread hash.
func Now() Time {
	s := vrt.Cur()
	if s == nil {
		return Epoch
	}
	return at(vrt.Clock())
}

// NanoTime is what the replaced internal/xtime returns.
func NanoTime() int64 {
	s := vrt.Cur()
	if s == nil {
		return 0
	}
	return vrt.Clock() + 1_000_000_000 // arbitrary non-zero origin like the monotonic clock
}

func Since(t Time) Duration { return Now().Sub(t) }
func Until(t Time) Duration { return t.Sub(Now()) }

func Sleep(d Duration) { vrt.Sleep(int64(d)) }

type Timer struct {
	C  <-chan Time
	ch chan Time
	h  *vrt.TimerHandle
}

func NewTimer(d Duration) *Timer {
	ch := make(chan Time, 1)
	t := &Timer{C: ch, ch: ch}
	t.h = vrt.NewChanTimer(ch, int64(d), 0, "timer")
	return t
}

func (t *Timer) Stop() bool            { return t.h.Stop() }
func (t *Timer) Reset(d Duration) bool { return t.h.Reset(int64(d), 0) }

func After(d Duration) <-chan Time { return NewTimer(d).C }

func AfterFunc(d Duration, f func()) *Timer {
	t := &Timer{}
	t.h = vrt.NewFuncTimer(f, int64(d), "afterfunc")
	return t
}

type Ticker struct {
	C  <-chan Time
	ch chan Time
	h  *vrt.TimerHandle
}

func NewTicker(d Duration) *Ticker {
	if d <= 0 {
		panic("non-positive interval for NewTicker")
	}
	ch := make(chan Time, 1)
	t := &Ticker{C: ch, ch: ch}
	t.h = vrt.NewChanTimer(ch, int64(d), int64(d), "ticker")
	return t
}

func (t *Ticker) Stop() { t.h.Stop() }
func (t *Ticker) Reset(d Duration) {
	if d <= 0 {
		panic("non-positive interval for Ticker.Reset")
	}
	t.h.Reset(int64(d), int64(d))
}

func Tick(d Duration) <-chan Time {
	if d <= 0 {
		return nil
	}
	return NewTicker(d).C
}
