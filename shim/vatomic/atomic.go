// Package vatomic replaces sync/atomic in rewritten packages: every operation
// is a scheduling point followed by a sequentially consistent single step.
package vatomic

import (
	"reflect"
	"unsafe"

	"github.com/form3tech-oss/f1/v2/internal/verifshim/vrt"
)

type integer interface {
	~int32 | ~int64 | ~uint32 | ~uint64 | ~uintptr
}

type word[T integer] struct {
	obj   vrt.Obj
	v     T
	quiet bool
}

// SetQuiet makes operations on this word happen without a scheduling point
// (they are still single atomic steps and still folded into the state hash).
// Harnesses use it for objects whose internal interleavings are another
// property's business.
func (w *word[T]) SetQuiet(q bool) { w.quiet = q }

func (w *word[T]) Load() T {
	s := vrt.Cur()
	if s.IsAborting() {
		return w.v
	}
	if w.quiet {
		s.QuietOp()
	} else {
		s.Point(vrt.KAtomicLoad, &w.obj, nil)
	}
	v := w.v
	s.Commit(vrt.KAtomicLoad, &w.obj, false, uint64(v))
	return v
}

func (w *word[T]) Store(v T) {
	s := vrt.Cur()
	if s.IsAborting() {
		w.v = v
		return
	}
	if w.quiet {
		s.QuietOp()
	} else {
		s.Point(vrt.KAtomicStore, &w.obj, nil)
	}
	w.v = v
	s.Commit(vrt.KAtomicStore, &w.obj, true, uint64(v))
}

func (w *word[T]) Add(d T) T {
	s := vrt.Cur()
	if s.IsAborting() {
		w.v += d
		return w.v
	}
	if w.quiet {
		s.QuietOp()
	} else {
		s.Point(vrt.KAtomicRMW, &w.obj, nil)
	}
	w.v += d
	s.Commit(vrt.KAtomicRMW, &w.obj, true, uint64(w.v))
	return w.v
}

func (w *word[T]) Swap(v T) T {
	s := vrt.Cur()
	if s.IsAborting() {
		old := w.v
		w.v = v
		return old
	}
	if w.quiet {
		s.QuietOp()
	} else {
		s.Point(vrt.KAtomicRMW, &w.obj, nil)
	}
	old := w.v
	w.v = v
	s.Commit(vrt.KAtomicRMW, &w.obj, true, uint64(old)^(uint64(v)<<1))
	return old
}

func (w *word[T]) CompareAndSwap(old, new T) bool {
	s := vrt.Cur()
	if s.IsAborting() {
		if w.v == old {
			w.v = new
			return true
		}
		return false
	}
	if w.quiet {
		s.QuietOp()
	} else {
		s.Point(vrt.KAtomicRMW, &w.obj, nil)
	}
	ok := w.v == old
	if ok {
		w.v = new
		s.Commit(vrt.KAtomicRMW, &w.obj, true, uint64(new))
	} else {
		s.Commit(vrt.KAtomicLoad, &w.obj, false, uint64(w.v))
	}
	return ok
}

// Peek reads without a scheduling point (harness predicates only).
func (w *word[T]) Peek() T { return w.v }

// SetName names the underlying object in traces.
func (w *word[T]) SetName(n string) { w.obj.Name = n }

func (w *word[T]) And(mask T) T { // Go 1.23 API
	s := vrt.Cur()
	if !s.IsAborting() {
		if w.quiet {
			s.QuietOp()
		} else {
			s.Point(vrt.KAtomicRMW, &w.obj, nil)
		}
	}
	old := w.v
	w.v &= mask
	s.Commit(vrt.KAtomicRMW, &w.obj, true, uint64(w.v))
	return old
}

func (w *word[T]) Or(mask T) T {
	s := vrt.Cur()
	if !s.IsAborting() {
		if w.quiet {
			s.QuietOp()
		} else {
			s.Point(vrt.KAtomicRMW, &w.obj, nil)
		}
	}
	old := w.v
	w.v |= mask
	s.Commit(vrt.KAtomicRMW, &w.obj, true, uint64(w.v))
	return old
}

type (
	Int32   struct{ word[int32] }
	Int64   struct{ word[int64] }
	Uint32  struct{ word[uint32] }
	Uint64  struct{ word[uint64] }
	Uintptr struct{ word[uintptr] }
)

type Bool struct {
	obj   vrt.Obj
	v     bool
	quiet bool
}

func (b *Bool) SetQuiet(q bool) { b.quiet = q }

func b2u(b bool) uint64 {
	if b {
		return 1
	}
	return 0
}

func (b *Bool) Load() bool {
	s := vrt.Cur()
	if s.IsAborting() {
		return b.v
	}
	if b.quiet {
		s.QuietOp()
	} else {
		s.Point(vrt.KAtomicLoad, &b.obj, nil)
	}
	v := b.v
	s.Commit(vrt.KAtomicLoad, &b.obj, false, b2u(v))
	return v
}

func (b *Bool) Store(v bool) {
	s := vrt.Cur()
	if s.IsAborting() {
		b.v = v
		return
	}
	if b.quiet {
		s.QuietOp()
	} else {
		s.Point(vrt.KAtomicStore, &b.obj, nil)
	}
	b.v = v
	s.Commit(vrt.KAtomicStore, &b.obj, true, b2u(v))
}

func (b *Bool) Swap(v bool) bool {
	s := vrt.Cur()
	if s.IsAborting() {
		old := b.v
		b.v = v
		return old
	}
	if b.quiet {
		s.QuietOp()
	} else {
		s.Point(vrt.KAtomicRMW, &b.obj, nil)
	}
	old := b.v
	b.v = v
	s.Commit(vrt.KAtomicRMW, &b.obj, true, b2u(old)|b2u(v)<<1)
	return old
}

func (b *Bool) CompareAndSwap(old, new bool) bool {
	s := vrt.Cur()
	if s.IsAborting() {
		if b.v == old {
			b.v = new
			return true
		}
		return false
	}
	if b.quiet {
		s.QuietOp()
	} else {
		s.Point(vrt.KAtomicRMW, &b.obj, nil)
	}
	ok := b.v == old
	if ok {
		b.v = new
		s.Commit(vrt.KAtomicRMW, &b.obj, true, b2u(new))
	} else {
		s.Commit(vrt.KAtomicLoad, &b.obj, false, b2u(b.v))
	}
	return ok
}

func (b *Bool) Peek() bool       { return b.v }
func (b *Bool) SetName(n string) { b.obj.Name = n }

// Pointer is atomic.Pointer[T].
type Pointer[T any] struct {
	obj vrt.Obj
	p   *T
	gen uint64
}

func (p *Pointer[T]) Load() *T {
	s := vrt.Cur()
	if s.IsAborting() {
		return p.p
	}
	s.Point(vrt.KAtomicLoad, &p.obj, nil)
	v := p.p
	s.Commit(vrt.KAtomicLoad, &p.obj, false, p.gen)
	return v
}

func (p *Pointer[T]) Store(v *T) {
	s := vrt.Cur()
	if s.IsAborting() {
		p.p = v
		return
	}
	s.Point(vrt.KAtomicStore, &p.obj, nil)
	p.p = v
	p.gen++
	s.Commit(vrt.KAtomicStore, &p.obj, true, p.gen)
}

func (p *Pointer[T]) Swap(v *T) *T {
	s := vrt.Cur()
	if s.IsAborting() {
		old := p.p
		p.p = v
		return old
	}
	s.Point(vrt.KAtomicRMW, &p.obj, nil)
	old := p.p
	p.p = v
	p.gen++
	s.Commit(vrt.KAtomicRMW, &p.obj, true, p.gen)
	return old
}

func (p *Pointer[T]) CompareAndSwap(old, new *T) bool {
	s := vrt.Cur()
	if s.IsAborting() {
		if p.p == old {
			p.p = new
			return true
		}
		return false
	}
	s.Point(vrt.KAtomicRMW, &p.obj, nil)
	ok := p.p == old
	if ok {
		p.p = new
		p.gen++
		s.Commit(vrt.KAtomicRMW, &p.obj, true, p.gen)
	} else {
		s.Commit(vrt.KAtomicLoad, &p.obj, false, p.gen)
	}
	return ok
}

// Value is atomic.Value.
type Value struct {
	obj vrt.Obj
	v   any
	gen uint64
}

func (x *Value) Load() any {
	s := vrt.Cur()
	if s.IsAborting() {
		return x.v
	}
	s.Point(vrt.KAtomicLoad, &x.obj, nil)
	v := x.v
	s.Commit(vrt.KAtomicLoad, &x.obj, false, x.gen)
	return v
}

func (x *Value) Store(v any) {
	s := vrt.Cur()
	if s.IsAborting() {
		x.v = v
		return
	}
	s.Point(vrt.KAtomicStore, &x.obj, nil)
	x.v = v
	x.gen++
	s.Commit(vrt.KAtomicStore, &x.obj, true, x.gen)
}

// Function forms on plain words. The object identity is the address.
var objs = map[any]*vrt.Obj{}
var objsExec *vrt.Sched

func objFor(addr any) *vrt.Obj {
	if objsExec != vrt.Cur() {
		objs = map[any]*vrt.Obj{}
		objsExec = vrt.Cur()
	}
	o, ok := objs[addr]
	if !ok {
		o = &vrt.Obj{}
		objs[addr] = o
	}
	return o
}

func rmw[T integer](addr *T, f func(T) T) (old, new T) {
	s := vrt.Cur()
	if s.IsAborting() {
		old = *addr
		*addr = f(old)
		return old, *addr
	}
	o := objFor(addr)
	s.Point(vrt.KAtomicRMW, o, nil)
	old = *addr
	*addr = f(old)
	s.Commit(vrt.KAtomicRMW, o, true, uint64(*addr))
	return old, *addr
}

func load[T integer](addr *T) T {
	s := vrt.Cur()
	if s.IsAborting() {
		return *addr
	}
	o := objFor(addr)
	s.Point(vrt.KAtomicLoad, o, nil)
	v := *addr
	s.Commit(vrt.KAtomicLoad, o, false, uint64(v))
	return v
}

func AddInt32(a *int32, d int32) int32 {
	_, n := rmw(a, func(x int32) int32 { return x + d })
	return n
}
func AddInt64(a *int64, d int64) int64 {
	_, n := rmw(a, func(x int64) int64 { return x + d })
	return n
}
func AddUint32(a *uint32, d uint32) uint32 {
	_, n := rmw(a, func(x uint32) uint32 { return x + d })
	return n
}
func AddUint64(a *uint64, d uint64) uint64 {
	_, n := rmw(a, func(x uint64) uint64 { return x + d })
	return n
}
func LoadInt32(a *int32) int32          { return load(a) }
func LoadInt64(a *int64) int64          { return load(a) }
func LoadUint32(a *uint32) uint32       { return load(a) }
func LoadUint64(a *uint64) uint64       { return load(a) }
func StoreInt32(a *int32, v int32)      { rmw(a, func(int32) int32 { return v }) }
func StoreInt64(a *int64, v int64)      { rmw(a, func(int64) int64 { return v }) }
func StoreUint32(a *uint32, v uint32)   { rmw(a, func(uint32) uint32 { return v }) }
func StoreUint64(a *uint64, v uint64)   { rmw(a, func(uint64) uint64 { return v }) }
func SwapInt32(a *int32, v int32) int32 { o, _ := rmw(a, func(int32) int32 { return v }); return o }
func SwapInt64(a *int64, v int64) int64 { o, _ := rmw(a, func(int64) int64 { return v }); return o }
func SwapUint32(a *uint32, v uint32) uint32 {
	o, _ := rmw(a, func(uint32) uint32 { return v })
	return o
}
func SwapUint64(a *uint64, v uint64) uint64 {
	o, _ := rmw(a, func(uint64) uint64 { return v })
	return o
}

func cas[T integer](a *T, old, new T) bool {
	ok := false
	rmw(a, func(x T) T {
		if x == old {
			ok = true
			return new
		}
		return x
	})
	return ok
}
func CompareAndSwapInt32(a *int32, o, n int32) bool    { return cas(a, o, n) }
func CompareAndSwapInt64(a *int64, o, n int64) bool    { return cas(a, o, n) }
func CompareAndSwapUint32(a *uint32, o, n uint32) bool { return cas(a, o, n) }
func CompareAndSwapUint64(a *uint64, o, n uint64) bool { return cas(a, o, n) }

// QuietAll sets quiet on every shim atomic reachable through the struct
// fields of *ptr (unexported ones included).
func QuietAll(ptr any) {
	quietWalk(reflect.ValueOf(ptr).Elem())
}

type quieter interface{ SetQuiet(bool) }

func quietWalk(v reflect.Value) {
	if v.Kind() != reflect.Struct || !v.CanAddr() {
		return
	}
	p := reflect.NewAt(v.Type(), unsafe.Pointer(v.UnsafeAddr()))
	if q, ok := p.Interface().(quieter); ok {
		q.SetQuiet(true)
		return
	}
	for i := 0; i < v.NumField(); i++ {
		quietWalk(v.Field(i))
	}
}
