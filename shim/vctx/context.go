// Package vctx replaces context in rewritten packages. Context, CancelFunc and
// the error values are the real ones (aliases), the cancel tree is our own:
// cancel marks a node and closes its Done channel in the cancelling thread,
// then walks the children, one scheduling point per node, as the real
// implementation does under its per-node mutexes. Deadlines are virtual
// timers whose expiry runs cancel in a fresh thread (real: time.AfterFunc).
package vctx

import (
	"context"
	"fmt"
	"time"

	"github.com/form3tech-oss/f1/v2/internal/verifshim/vrt"
	"github.com/form3tech-oss/f1/v2/internal/verifshim/vtime"
)

type (
	Context         = context.Context
	CancelFunc      = context.CancelFunc
	CancelCauseFunc = context.CancelCauseFunc
)

var (
	Canceled         = context.Canceled
	DeadlineExceeded = context.DeadlineExceeded
)

func Background() Context { return context.Background() }
func TODO() Context       { return context.TODO() }

func WithValue(parent Context, key, val any) Context { return &valueCtx{parent, key, val} }

type valueCtx struct {
	Context
	key, val any
}

func (c *valueCtx) Value(key any) any {
	if c.key == key {
		return c.val
	}
	return c.Context.Value(key)
}

func WithoutCancel(parent Context) Context { return withoutCancel{parent} }

type withoutCancel struct{ c Context }

func (withoutCancel) Deadline() (time.Time, bool) { return time.Time{}, false }
func (withoutCancel) Done() <-chan struct{}       { return nil }
func (withoutCancel) Err() error                  { return nil }
func (w withoutCancel) Value(k any) any           { return w.c.Value(k) }

type node struct {
	parent   Context
	obj      vrt.Obj
	done     chan struct{}
	err      error
	cause    error
	children []*node
	deadline time.Time
	hasDl    bool
	timer    *vrt.TimerHandle
	exec     *vrt.Sched
}

type nodeKeyT struct{}

var nodeKey nodeKeyT

func (n *node) Deadline() (time.Time, bool) {
	if n.hasDl {
		return n.deadline, true
	}
	return n.parent.Deadline()
}

func (n *node) Done() <-chan struct{} { return n.done }

func (n *node) Err() error {
	s := vrt.Cur()
	if s == nil || s.IsAborting() || n.exec != s {
		return n.err
	}
	s.Point(vrt.KCtxErr, &n.obj, nil)
	e := n.err
	var r uint64
	if e != nil {
		r = 1
		if e == DeadlineExceeded {
			r = 2
		}
	}
	s.Commit(vrt.KCtxErr, &n.obj, false, r)
	return e
}

func (n *node) Value(key any) any {
	if key == nodeKey {
		return n
	}
	return n.parent.Value(key)
}

// Peek reports the error without a scheduling point (harness predicates).
func Peek(c Context) error {
	if n, ok := c.Value(nodeKey).(*node); ok {
		return n.err
	}
	return nil
}

func newNode(parent Context, name string) *node {
	s := vrt.Cur()
	n := &node{parent: parent, done: make(chan struct{}), exec: s}
	n.obj.Name = name
	if s == nil || s.IsAborting() {
		return n
	}
	s.Point(vrt.KCtxCancel, &n.obj, nil)
	if s.IsAborting() {
		return n
	}
	sh := s.ShadowOf(n.done)
	sh.SetName(name + ".Done")
	if p, ok := parent.Value(nodeKey).(*node); ok && p.exec == s {
		// nearest shim ancestor; foreign wrappers in between (value contexts,
		// xcontext.Detach) are honoured through their Done(): a wrapper that
		// detaches returns nil there.
		if parent.Done() != nil {
			if p.err != nil {
				n.err, n.cause = p.err, p.cause
				s.CloseShadow(sh)
			} else {
				p.children = append(p.children, n)
			}
		}
	} else if parent.Done() != nil {
		vrt.Infra("vctx: a cancellable parent context that was not created through the context shim reached rewritten code (" + fmt.Sprintf("%T", parent) + "); the harness cannot control it")
	}
	s.Commit(vrt.KCtxCancel, &n.obj, true, 7)
	return n
}

func (n *node) cancel(err, cause error, removeFromParent bool) {
	s := vrt.Cur()
	if s == nil || s.IsAborting() || n.exec != s {
		return
	}
	s.Point(vrt.KCtxCancel, &n.obj, nil)
	if s.IsAborting() {
		return
	}
	if n.err != nil {
		s.Commit(vrt.KCtxCancel, &n.obj, false, 9)
		return
	}
	n.err = err
	if cause == nil {
		cause = err
	}
	n.cause = cause
	s.CloseShadow(s.ShadowOf(n.done))
	kids := n.children
	n.children = nil
	s.Commit(vrt.KCtxCancel, &n.obj, true, 1)
	for _, k := range kids {
		k.cancel(err, cause, false)
	}
	if n.timer != nil {
		n.timer.Stop()
	}
	if removeFromParent {
		if p, ok := n.parent.Value(nodeKey).(*node); ok {
			for i, k := range p.children {
				if k == n {
					p.children = append(p.children[:i:i], p.children[i+1:]...)
					break
				}
			}
		}
	}
}

func WithCancel(parent Context) (Context, CancelFunc) {
	n := newNode(parent, "ctx.cancel")
	return n, func() { n.cancel(Canceled, nil, true) }
}

func WithCancelCause(parent Context) (Context, CancelCauseFunc) {
	n := newNode(parent, "ctx.cancelcause")
	return n, func(cause error) { n.cancel(Canceled, cause, true) }
}

func Cause(c Context) error {
	if n, ok := c.Value(nodeKey).(*node); ok {
		return n.cause
	}
	return c.Err()
}

func WithDeadline(parent Context, d time.Time) (Context, CancelFunc) {
	return WithDeadlineCause(parent, d, nil)
}

func WithDeadlineCause(parent Context, d time.Time, cause error) (Context, CancelFunc) {
	if cur, ok := parent.Deadline(); ok && cur.Before(d) {
		return WithCancel(parent)
	}
	n := newNode(parent, "ctx.deadline")
	n.deadline, n.hasDl = d, true
	dur := d.Sub(vtime.Now())
	if dur <= 0 {
		n.cancel(DeadlineExceeded, cause, true)
		return n, func() { n.cancel(Canceled, nil, false) }
	}
	if n.err == nil {
		n.timer = vrt.NewFuncTimer(func() { n.cancel(DeadlineExceeded, cause, true) }, int64(dur), "ctx.deadline")
	}
	return n, func() { n.cancel(Canceled, nil, true) }
}

func WithTimeout(parent Context, d time.Duration) (Context, CancelFunc) {
	return WithDeadline(parent, vtime.Now().Add(d))
}

func WithTimeoutCause(parent Context, d time.Duration, cause error) (Context, CancelFunc) {
	return WithDeadlineCause(parent, vtime.Now().Add(d), cause)
}

func AfterFunc(c Context, f func()) (stop func() bool) {
	stopped := false
	vrt.Go(func() {
		vrt.Recv(c.Done())
		if !stopped {
			f()
		}
	})
	return func() bool { was := !stopped; stopped = true; return was }
}
