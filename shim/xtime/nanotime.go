package xtime

import "github.com/form3tech-oss/f1/v2/internal/verifshim/vtime"

// NanoTime under verification returns the virtual clock (the original is a
// go:linkname to runtime.nanotime, i.e. real time).
func NanoTime() int64 { return vtime.NanoTime() }
