package vrt

import (
	"encoding/json"
	"flag"
	"fmt"
	"os"
	"runtime/pprof"
	"sort"
	"strings"
	"time"
)

// Scenario is one closed configuration of a harness: a driver body plus its
// oracle, explored exhaustively up to Bound deviations.
type Scenario struct {
	Name    string
	Body    func()
	Post    func(o *Outcome)
	Setup   func() // driver context, before the scenario's first execution
	Bound   int
	Memo    bool
	Delay   bool
	Horizon time.Duration
	// EarlyWindow bounds how far ahead an early clock advance (a deviation: "the
	// timer lands before this thread's next step") may reach. Default 2 s.
	EarlyWindow time.Duration
	MaxSteps    uint64
	Weight      int // share of the time budget (default 1)
	// UnorderedSUT: the code under test ranges over a Go map whose order the harness cannot own; a finding is
	// confirmed by its violation key reproducing in two of up to eight replays instead of by identical replays
	UnorderedSUT bool
	// MaxExec > 0 caps the number of executions (the evidence then says exhaustive: false for the scenario unless
	// the space was smaller); used for long whole runs where the first executions are what is wanted
	MaxExec int64
}

// WithPlainPoints returns the scenario with writes to plain shared memory as
// scheduling points (see PlainPoints) and the happens-before memo off (plain
// memory is not part of its key).
func (sc Scenario) WithPlainPoints(bound int) Scenario {
	prev := sc.Setup
	sc.Name += "/plain-memory-writes-are-scheduling-points"
	sc.Memo = false
	sc.Bound = bound
	sc.Setup = func() {
		if prev != nil {
			prev()
		}
		PlainPoints = true
	}
	return sc
}

type scenarioReport struct {
	Name     string     `json:"name"`
	Policy   string     `json:"policy"`
	Bound    int        `json:"bound_requested"`
	Memo     bool       `json:"memo"`
	Findings []*Finding `json:"findings,omitempty"`
	Samples  []any      `json:"samples,omitempty"`
	Levels   []Stats    `json:"levels,omitempty"`
	Stats
}

type report struct {
	Property  string           `json:"property"`
	Tier      string           `json:"tier"`
	Scenarios []scenarioReport `json:"scenarios"`
}

// Main is the entry point of an E1 harness binary.
func Main(property string, gen func(tier string) []Scenario) {
	tier := flag.String("tier", "quick", "quick|thorough")
	budget := flag.Float64("budget", 60, "wall-clock budget in seconds for the exploration")
	_ = flag.Int64("seed", 0, "recorded only; nothing is sampled")
	shard := flag.String("shard", "0/1", "i/n")
	replay := flag.String("replay", "", "replay file")
	only := flag.String("only", "", "run only scenarios whose name contains this")
	maxb := flag.Int("maxbound", -1, "override every scenario's bound")
	cpuprof := flag.String("cpuprofile", "", "write a CPU profile (debugging the harness itself)")
	nomemo := flag.Bool("nomemo", false, "disable the happens-before memo (self-test: the outcome sets must not change)")
	flag.Parse()
	var si, sn int
	fmt.Sscanf(*shard, "%d/%d", &si, &sn)
	if sn < 1 {
		sn = 1
	}
	if *cpuprof != "" {
		f, err := os.Create(*cpuprof)
		if err == nil {
			pprof.StartCPUProfile(f)
			defer pprof.StopCPUProfile()
		}
	}
	scs := gen(*tier)
	if *replay != "" {
		os.Exit(doReplay(*replay, gen))
	}
	rep := report{Property: property, Tier: *tier}
	start := time.Now()
	total := time.Duration(*budget * float64(time.Second))
	var sel []Scenario
	wsum := 0
	for _, sc := range scs {
		if *only != "" && !strings.Contains(sc.Name, *only) {
			continue
		}
		if sc.Weight == 0 {
			sc.Weight = 1
		}
		wsum += sc.Weight
		sel = append(sel, sc)
	}
	for i, sc := range sel {
		if *maxb >= 0 {
			sc.Bound = *maxb
		}
		if *nomemo {
			sc.Memo = false
		}
		remaining := total - time.Since(start)
		if remaining < 0 {
			remaining = 0
		}
		share := remaining * time.Duration(sc.Weight) / time.Duration(wsum)
		wsum -= sc.Weight
		_ = i
		rep.Scenarios = append(rep.Scenarios, runScenario(sc, time.Now().Add(share), si, sn))
	}
	enc := json.NewEncoder(os.Stdout)
	if err := enc.Encode(rep); err != nil {
		fmt.Fprintln(os.Stderr, err)
		os.Exit(2)
	}
}

func newExplorer(sc Scenario) *Explorer {
	h := int64(sc.Horizon)
	if h == 0 {
		h = int64(time.Hour)
	}
	if sc.MaxSteps == 0 {
		sc.MaxSteps = 20000
	}
	if sc.EarlyWindow == 0 {
		sc.EarlyWindow = 2 * time.Second
	}
	return &Explorer{SelectFairness: 3, EarlyWindow: int64(sc.EarlyWindow), Name: sc.Name, Delay: sc.Delay, UseMemo: sc.Memo, MaxSteps: sc.MaxSteps, Horizon: h, Body: sc.Body, Post: sc.Post, UnorderedSUT: sc.UnorderedSUT, MaxExec: sc.MaxExec}
}

func runScenario(sc Scenario, deadline time.Time, si, sn int) scenarioReport {
	r := scenarioReport{Name: sc.Name, Bound: sc.Bound, Memo: sc.Memo, Policy: "free-switch"}
	if sc.Delay {
		r.Policy = "delay"
	}
	ExtCalls, PlainPoints = false, false
	if sc.Setup != nil {
		sc.Setup()
	}
	found := map[string]*Finding{}
	completed := -1
	var last Stats
	for b := 0; b <= sc.Bound; b++ {
		e := newExplorer(sc)
		e.Bound = b
		e.Found = found
		e.Deadline = deadline
		e.Shard, e.Shards = si, sn
		e.Run()
		lv := e.Stats
		lv.BoundDone = b
		lv.Outcomes = nil
		r.Levels = append(r.Levels, lv)
		last = e.Stats
		if !e.Stats.Exhaustive {
			break
		}
		completed = b
		if b == 0 && si == 0 {
			// sample: the default schedule's trace
			e.memo = nil
			x := e.runOnce(nil, true)
			var ops []string
			for i, en := range lastEntries {
				if i >= 60 {
					ops = append(ops, fmt.Sprintf("... %d more", len(lastEntries)-60))
					break
				}
				ops = append(ops, en.Thread+":"+en.Op+"("+en.Obj+")")
			}
			r.Samples = append(r.Samples, map[string]any{"schedule": "default (no deviation)", "choices": x.choices, "status": x.out.Status.String(),
				"events": x.out.Log, "ops": ops})
		}
	}
	r.Stats = last
	r.Stats.BoundDone = completed
	r.Stats.Exhaustive = completed == sc.Bound
	// confirm findings (replay twice, attach trace)
	keys := make([]string, 0, len(found))
	for k := range found {
		keys = append(keys, k)
	}
	sort.Strings(keys)
	for _, k := range keys {
		f := found[k]
		e := newExplorer(sc)
		e.Bound = f.Bound
		e.Confirm(f)
		if len(f.Trace) > 400 {
			f.Trace = f.Trace[len(f.Trace)-400:]
		}
		r.Findings = append(r.Findings, f)
	}
	if len(r.Findings) > 0 && len(r.Samples) < 2 {
		f := r.Findings[0]
		r.Samples = append(r.Samples, map[string]any{"schedule": "counterexample " + f.Key, "choices": f.Choices, "deviations": f.Where})
	}
	return r
}

func doReplay(path string, gen func(string) []Scenario) int {
	b, err := os.ReadFile(path)
	if err != nil {
		fmt.Fprintln(os.Stderr, err)
		return 2
	}
	var f struct {
		Finding
		Scenario string `json:"scenario"`
		Tier     string `json:"tier"`
	}
	if err := json.Unmarshal(b, &f); err != nil {
		fmt.Fprintln(os.Stderr, err)
		return 2
	}
	for _, tier := range []string{"quick", "thorough"} {
		for _, sc := range gen(tier) {
			if sc.Name != f.Scenario {
				continue
			}
			ExtCalls, PlainPoints = false, false
			if sc.Setup != nil {
				sc.Setup()
			}
			e := newExplorer(sc)
			e.Bound = f.Bound
			e.Delay = f.Delay
			out, tr := e.Replay(f.Choices)
			for _, en := range tr {
				fmt.Printf("%5d %-14s %-22s %-24s t=%-12d %s\n", en.Step, en.Thread, en.Op, en.Obj, en.Clock, en.Where)
			}
			fmt.Printf("status=%s cost=%d clock=%d detail=%s\n", out.Status, out.Cost, out.EndClock, out.Detail)
			for _, l := range out.Log {
				fmt.Println("  event:", l)
			}
			hit := false
			for _, v := range out.Violations {
				fmt.Printf("violation %s: %s\n", v.Key, v.Msg)
				if v.Key == f.Key {
					hit = true
				}
			}
			if hit {
				fmt.Printf("VIOLATION property=%s replay=%s\n", strings.SplitN(f.Key, "/", 2)[0], path)
				return 1
			}
			fmt.Println("recorded violation did not reproduce on this tree")
			return 0
		}
	}
	fmt.Fprintln(os.Stderr, "scenario not found:", f.Scenario)
	return 2
}
