// Package vrt is the controlled scheduler ("E1") under which the real f1
// packages run after the mechanical rewrite of tools/rewrite. Exactly one
// thread (goroutine) holds the baton at any time; every synchronisation
// operation of the shim packages is a scheduling point taken before the
// operation's effect. See /verif/DESIGN.md §1.1 and appendix B.
package vrt

import (
	"fmt"
	"os"
	"runtime"
	"slices"
	"sort"
	"strings"
)

// Status of one execution.
type Status int

const (
	StOK       Status = iota // main returned
	StDeadlock               // no enabled thread, no pending timer, main not returned
	StHorizon                // virtual clock passed the horizon with main not returned
	StCrash                  // a panic escaped a thread (the real process would have died)
	StStepCap                // per-execution step cap hit (reported as a cap, never as pass/violation)
	StPruned                 // reached a memoised state at no lower cost
)

func (s Status) String() string {
	return [...]string{"ok", "deadlock", "horizon", "crash", "stepcap", "pruned"}[s]
}

// Op kinds (for hashing and traces).
const (
	KStart uint8 = iota + 1
	KExit
	KAtomicLoad
	KAtomicStore
	KAtomicRMW
	KLock
	KUnlock
	KRLock
	KRLockWait
	KRUnlock
	KWLockAnnounce
	KWLockAcquire
	KCondWait
	KCondWake
	KCondSignal
	KCondBroadcast
	KWgAdd
	KWgWait
	KOnce
	KSend
	KRecv
	KClose
	KSelect
	KGo
	KCtxErr
	KCtxCancel
	KTimer
	KSleep
	KYield
	KWaitUntil
	KLog
	KSem
	KOnceDone
	KTimerFire
	KMapOp
)

var kindNames = map[uint8]string{
	KStart: "start", KExit: "exit", KAtomicLoad: "atomic.Load", KAtomicStore: "atomic.Store", KAtomicRMW: "atomic.RMW",
	KLock: "Lock", KUnlock: "Unlock", KRLock: "RLock", KRLockWait: "RLock(wait)", KRUnlock: "RUnlock",
	KWLockAnnounce: "RW.Lock(announce)", KWLockAcquire: "RW.Lock(acquire)", KCondWait: "Cond.Wait", KCondWake: "Cond.Wait(wake)",
	KCondSignal: "Cond.Signal", KCondBroadcast: "Cond.Broadcast", KWgAdd: "WaitGroup.Add", KWgWait: "WaitGroup.Wait",
	KOnce: "Once.Do", KSend: "send", KRecv: "recv", KClose: "close", KSelect: "select", KGo: "go", KCtxErr: "ctx.Err",
	KCtxCancel: "ctx.cancel", KTimer: "timer", KSleep: "Sleep", KYield: "yield", KWaitUntil: "waituntil", KLog: "log",
	KSem: "sem", KOnceDone: "Once.Do(done)", KTimerFire: "timer.fire", KMapOp: "sync.Map",
}

// Obj is the scheduler-side identity of a shim object (mutex, atomic, channel
// shadow, context node, ...). Zero value is usable; it is named on first use.
type Obj struct {
	id   uint64
	hb   uint64
	racc uint64
	exec *Sched // execution that named it (objects may outlive an execution only by mistake)
	Name string
}

// Thread is one goroutine of the program under test.
type Thread struct {
	idx    int
	id     uint64
	Name   string
	nspawn uint64
	nobj   uint64
	wake   chan struct{}
	hb     uint64

	parked bool
	guard  func() bool
	pkind  uint8
	pobj   *Obj
	pdesc  string
	since  uint64 // step at which it parked (FIFO orders)

	done   bool
	isMain bool
	killed bool
	ender  bool

	// channel rendez-vous
	delivered bool
	dval      any
	dok       bool
	dcase     int
	taken     bool
	pcases    []SelCase          // pending receive/send cases, for rendez-vous partners
	starve    map[*chanState]int // ready select cases passed over in a row
	// cond / rwmutex
	signaled bool
	granted  bool

	abortOps int
}

// Point records one choice point of an execution.
type Point struct {
	N     int   // number of alternatives
	NFree int   // alternatives [0,NFree) cost 0 (relative), the rest cost 1
	Kind  uint8 // 't' thread, 's' select, 'm' timer tie, 'r' rand
}

// Violation is an oracle failure reported by a harness or by the scheduler.
type Violation struct {
	Oracle string `json:"oracle"`
	Key    string `json:"key"`
	Msg    string `json:"msg"`
}

// TraceEntry is one committed operation (trace mode only).
type TraceEntry struct {
	Step   int    `json:"step"`
	Thread string `json:"thread"`
	Op     string `json:"op"`
	Obj    string `json:"obj,omitempty"`
	Res    string `json:"res,omitempty"`
	Clock  int64  `json:"clock_ns"`
	Where  string `json:"where,omitempty"`
}

type timer struct {
	obj      *Obj
	deadline int64
	period   int64 // >0: ticker
	seq      uint64
	ch       *chanState // send time on fire (nil for func timers)
	fn       func()     // run in a fresh thread on fire (AfterFunc / ctx deadline)
	sleeper  *Thread    // wake this sleeper
	active   bool
	name     string
}

// Sched is one execution.
type Sched struct {
	ex      *Explorer
	threads []*Thread
	cur     *Thread
	clock   int64
	timers  []*timer
	tseq    uint64

	prefix   []int
	choices  []int
	points   []Point
	costAt   []int // cumulative cost before each point
	cost     int
	steps    uint64
	quietOps uint64 // atomic operations performed without a scheduling point of their own (vatomic quiet mode)
	status   Status
	detail   string
	aborting bool
	prunedAt int

	fin chan struct{}
	ack chan struct{}

	viols    []Violation
	chans    map[uintptr]*chanState
	log      []string
	logClock []int64
	logObj   Obj

	trace         bool
	entries       []TraceEntry
	leaks         []string
	pendingTimers []string
	crash         string
	mainReturned  bool
	draining      bool
	enBuf         []*Thread
	keyBuf        []uint64
	mainClock     int64
}

// S is the execution currently running in this process (one at a time).
var S *Sched

func mix(a, b uint64) uint64 {
	x := a ^ (b + 0x9e3779b97f4a7c15 + (a << 6) + (a >> 2))
	x ^= x >> 30
	x *= 0xbf58476d1ce4e5b9
	x ^= x >> 27
	x *= 0x94d049bb133111eb
	x ^= x >> 31
	return x
}

func hashString(s string) uint64 {
	h := uint64(14695981039346656037)
	for i := 0; i < len(s); i++ {
		h ^= uint64(s[i])
		h *= 1099511628211
	}
	return h
}

// Aborting reports whether the current execution is being torn down (shim
// operations are no-ops then; harness code run from defers must not record).
func Aborting() bool { return S == nil || S.aborting }

func (s *Sched) objID(o *Obj) uint64 {
	if o.exec != s {
		t := s.cur
		t.nobj++
		o.id = mix(t.id, t.nobj)
		o.hb = o.id
		o.racc = 0
		o.exec = s
	}
	return o.id
}

// commit folds a performed operation into the happens-before hashes.
func (s *Sched) commit(t *Thread, kind uint8, o *Obj, write bool, res uint64) {
	var oid, base uint64
	if o != nil {
		oid = s.objID(o)
		base = o.hb
		if write {
			base = mix(o.hb, o.racc)
		}
	}
	h := mix(mix(t.hb, uint64(kind)^(oid<<8)), mix(base, res))
	t.hb = h
	if o != nil {
		if write {
			o.hb = h
			o.racc = 0
		} else {
			o.racc += mix(h, 0x51ed)
		}
	}
	if s.trace {
		e := TraceEntry{Step: int(s.steps), Thread: t.Name, Op: kindNames[kind], Clock: s.clock, Res: fmt.Sprint(int64(res))}
		if o != nil {
			e.Obj = o.Name
			if e.Obj == "" {
				e.Obj = fmt.Sprintf("obj%x", o.id&0xffff)
			}
		}
		e.Where = caller()
		s.entries = append(s.entries, e)
	}
}

// Observe folds a value the current thread read from the environment (clock,
// scripted random answer) into its hash without a scheduling point.
func (s *Sched) Observe(v uint64) {
	if s == nil || s.aborting {
		return
	}
	s.cur.hb = mix(s.cur.hb, v^0x0b5e)
}

func caller() string {
	pcs := make([]uintptr, 24)
	n := runtime.Callers(3, pcs)
	frames := runtime.CallersFrames(pcs[:n])
	for {
		f, more := frames.Next()
		if !strings.Contains(f.Function, "/verifshim/") && f.Function != "" {
			fn := f.Function
			if i := strings.LastIndex(fn, "/"); i >= 0 {
				fn = fn[i+1:]
			}
			file := f.File
			if i := strings.LastIndex(file, "/"); i >= 0 {
				file = file[i+1:]
			}
			return fmt.Sprintf("%s (%s:%d)", fn, file, f.Line)
		}
		if !more {
			return ""
		}
	}
}

// Where returns the innermost non-shim function of the calling thread.
func Where() string { return caller() }

// ---------------------------------------------------------------------------
// scheduling

func (s *Sched) enabledThreads(from *Thread) []*Thread {
	out := s.enBuf[:0]
	defer func() { s.enBuf = out }()
	if from != nil && !from.done && (from.guard == nil || from.guard()) {
		out = append(out, from)
	}
	for _, t := range s.threads {
		if t == from || t.done || !t.parked {
			continue
		}
		if t.guard == nil || t.guard() {
			out = append(out, t)
		}
	}
	return out
}

// earlyTimer reports whether the earliest pending timer is close enough to be
// fired early ("this thread was slow"): within EarlyWindow of the clock.
func (s *Sched) earlyTimer() bool {
	for _, tm := range s.timers {
		if tm.active && tm.deadline-s.clock <= s.ex.EarlyWindow {
			return true
		}
	}
	return false
}

func (s *Sched) hasTimer() bool {
	for _, tm := range s.timers {
		if tm.active {
			return true
		}
	}
	return false
}

// Point is a scheduling point of the current thread before an operation whose
// enabledness is guard (nil = always enabled). It returns when the thread has
// been chosen with its guard true; nothing else runs between that evaluation
// and the return, so guard + effect are atomic.
func (s *Sched) Point(kind uint8, o *Obj, guard func() bool) {
	t := s.cur
	if s.aborting {
		t.abortOps++
		if t.abortOps > 1_000_000 {
			fmt.Fprintln(os.Stderr, "vrt: runaway thread during abort:", t.Name)
			os.Exit(2)
		}
		return
	}
	t.parked = true
	t.guard = guard
	t.pkind = kind
	t.pobj = o
	t.since = s.steps
	s.schedule(t)
	t.parked = false
	t.guard = nil
}

func (s *Sched) schedule(from *Thread) {
	for {
		s.steps++
		if s.steps > s.ex.MaxSteps {
			s.endFrom(StStepCap, from, "step cap")
			return
		}
		en := s.enabledThreads(from)
		if s.draining {
			if len(en) == 0 {
				// a thread that is merely asleep is not stuck: let Sleep timers (only
				// those) elapse, so that what is left at the end is blocked for good
				var next *timer
				for _, tm := range s.timers {
					if tm.active && tm.sleeper != nil && (next == nil || tm.deadline < next.deadline) {
						next = tm
					}
				}
				if next != nil {
					if next.deadline > s.clock {
						s.clock = next.deadline
					}
					s.fire(next)
					continue
				}
				s.leaks = s.liveThreads()
				for _, tm := range s.timers {
					if tm.active {
						s.pendingTimers = append(s.pendingTimers, tm.name)
					}
				}
				s.endFrom(StOK, from, "")
				return
			}
			s.handoff(from, en[0])
			return
		}
		canAdv := s.hasTimer()
		if len(en) == 0 {
			if !canAdv {
				s.endFrom(StDeadlock, from, s.describeBlocked())
				return
			}
			if !s.advance(from, false) {
				return
			}
			continue
		}
		n := len(en)
		nAlt := n
		if canAdv && s.earlyTimer() {
			nAlt++
		}
		pick := 0
		if nAlt > 1 {
			fromEnabled := from != nil && en[0] == from
			nfree := n
			if fromEnabled || s.ex.Delay {
				nfree = 1
			}
			var ok bool
			pick, ok = s.choose(nAlt, nfree, 't', from)
			if !ok {
				return
			}
		}
		if pick == n { // early clock advance
			if !s.advance(from, true) {
				return
			}
			continue
		}
		s.handoff(from, en[pick])
		return
	}
}

func (s *Sched) handoff(from, to *Thread) {
	if to == from {
		return
	}
	s.cur = to
	to.wake <- struct{}{}
	if from != nil && !from.done {
		<-from.wake
		if from.killed {
			runtime.Goexit()
		}
	}
}

// choose takes the next choice (from the prefix, else 0), records the point and
// consults the memo. ok=false means the execution has been ended (pruned).
func (s *Sched) choose(n, nfree int, kind uint8, from *Thread) (int, bool) {
	i := len(s.points)
	c := 0
	if i < len(s.prefix) {
		c = s.prefix[i]
		if c >= n {
			s.ex.fatal(fmt.Sprintf("replay divergence at point %d: choice %d of %d alternatives (kind %c)", i, c, n, kind))
		}
	} else if s.ex.memo != nil {
		k := s.stateKey()
		// the same state can be the origin of two different kinds of choice in a
		// row (a thread choice, then the select choice of the thread picked)
		k.a = mix(k.a, uint64(kind))
		if old, seen := s.ex.memo[k]; seen && int(old) <= s.cost {
			if s.ex.memoOwner != nil {
				fmt.Fprintf(os.Stderr, "PRUNE at=%v owner=%v kind=%c\n  now:   %s\n  owner: %s\n", s.choices, s.ex.memoOwner[k], kind, s.describeState(), s.ex.memoDesc[k])
			}
			s.prunedAt = i
			s.endFrom(StPruned, from, "")
			return 0, false
		}
		s.ex.memo[k] = int32(s.cost)
		if s.ex.memoOwner != nil {
			s.ex.memoOwner[k] = append([]int(nil), s.choices...)
			s.ex.memoDesc[k] = s.describeState()
		}
	}
	s.points = append(s.points, Point{N: n, NFree: nfree, Kind: kind})
	s.costAt = append(s.costAt, s.cost)
	s.choices = append(s.choices, c)
	if c >= nfree {
		s.cost++
	}
	return c, true
}

// FreeChoice is a cost-free choice point among n alternatives (select among
// ready cases, scripted random answers, same-instant timers).
func (s *Sched) FreeChoice(n int, kind uint8) int {
	if s.aborting || n <= 1 {
		return 0
	}
	c, ok := s.choose(n, n, kind, s.cur)
	if !ok {
		return 0
	}
	s.cur.hb = mix(s.cur.hb, uint64(c)+0x77)
	return c
}

type key struct{ a, b uint64 }

func (s *Sched) stateKey() key {
	hs := s.keyBuf[:0]
	for _, t := range s.threads {
		x := mix(t.id, t.hb)
		if t.done {
			x = mix(x, 0xdead)
		}
		hs = append(hs, x)
	}
	slices.Sort(hs)
	var a, b uint64 = 0x1234, 0x9876
	for _, h := range hs {
		a = mix(a, h)
		b = mix(b^0x5555, h+1)
	}
	s.keyBuf = hs
	ts := hs[:0]
	for _, tm := range s.timers {
		if tm.active {
			ts = append(ts, mix(mix(tm.obj.id, tm.obj.hb), uint64(tm.deadline)))
		}
	}
	slices.Sort(ts)
	for _, h := range ts {
		a = mix(a, h^0x7171)
		b = mix(b, h)
	}
	// Timer fires are scheduler events, not thread events: what they wrote into a
	// timer-fed channel is in no thread's hash until a thread touches the channel
	// again, so those shadows are part of the key themselves.
	cs := ts[:0]
	for _, c := range s.chans {
		if c.timerFed {
			cs = append(cs, mix(mix(c.obj.id, c.obj.hb), uint64(len(c.buf))))
		}
	}
	slices.Sort(cs)
	for _, h := range cs {
		a = mix(a, h^0xc4a7)
		b = mix(b, h+3)
	}
	var cid uint64
	if s.cur != nil && !s.cur.done {
		cid = s.cur.id
	}
	a = mix(a, uint64(s.clock))
	b = mix(b, cid)
	a = mix(a, cid)
	return key{a, b}
}

// advance moves the clock to the earliest deadline and fires one timer due
// then (the order among same-instant timers is a free choice). Returns false
// if the execution ended (horizon).
func (s *Sched) advance(from *Thread, early bool) bool {
	var due []*timer
	var min int64
	first := true
	for _, tm := range s.timers {
		if !tm.active {
			continue
		}
		if first || tm.deadline < min {
			min = tm.deadline
			first = false
		}
	}
	if first {
		return true
	}
	if min > s.clock {
		s.clock = min
	}
	if !early && s.clock > s.ex.Horizon && !s.mainReturned {
		s.endFrom(StHorizon, from, s.describeBlocked())
		return false
	}
	for _, tm := range s.timers {
		if tm.active && tm.deadline <= s.clock {
			due = append(due, tm)
		}
	}
	sort.Slice(due, func(i, j int) bool { return due[i].seq < due[j].seq })
	pick := 0
	if len(due) > 1 {
		var ok bool
		pick, ok = s.choose(len(due), len(due), 'm', from)
		if !ok {
			return false
		}
	}
	s.fire(due[pick])
	return true
}

func (s *Sched) fire(tm *timer) {
	// executed by the scheduler: folds into the timer object's chain
	tm.obj.hb = mix(tm.obj.hb, uint64(tm.deadline)^0xf17e)
	if s.trace {
		s.entries = append(s.entries, TraceEntry{Step: int(s.steps), Thread: "<clock>", Op: "timer.fire", Obj: tm.name, Clock: s.clock})
	}
	when := tm.deadline
	if tm.period > 0 {
		tm.deadline += tm.period
	} else {
		tm.active = false
		s.gcTimers()
	}
	switch {
	case tm.ch != nil:
		c := tm.ch
		if len(c.buf) < c.cap {
			c.buf = append(c.buf, TimeValue(when))
			c.obj.hb = mix(mix(c.obj.hb, c.obj.racc), tm.obj.hb)
			c.obj.racc = 0
		}
	case tm.sleeper != nil:
		tm.sleeper.signaled = true
	case tm.fn != nil:
		s.spawn(tm.fn, "timerfn:"+tm.name, tm.obj.hb)
	}
}

func (s *Sched) gcTimers() {
	out := s.timers[:0]
	for _, tm := range s.timers {
		if tm.active {
			out = append(out, tm)
		}
	}
	for i := len(out); i < len(s.timers); i++ {
		s.timers[i] = nil
	}
	s.timers = out
}

// TimeValue converts a virtual instant into the value sent on timer channels;
// set by vtime at init (avoids an import cycle).
var TimeValue = func(ns int64) any { return ns }

func (s *Sched) describeBlocked() string {
	var parts []string
	for _, t := range s.threads {
		if t.done {
			continue
		}
		d := kindNames[t.pkind]
		if t.pobj != nil && t.pobj.Name != "" {
			d += " " + t.pobj.Name
		}
		if t.pdesc != "" {
			d += " [" + t.pdesc + "]"
		}
		parts = append(parts, t.Name+": "+d)
	}
	return strings.Join(parts, "; ")
}

// Blocked returns "thread: op" descriptions of every live thread (for finding keys).
func (s *Sched) liveThreads() []string {
	var parts []string
	for _, t := range s.threads {
		if t.done || t.isMain {
			continue
		}
		d := kindNames[t.pkind]
		if t.pdesc != "" {
			d += " [" + t.pdesc + "]"
		}
		parts = append(parts, t.Name+": "+d)
	}
	return parts
}

// ---------------------------------------------------------------------------
// threads

func (s *Sched) spawn(f func(), name string, salt uint64) *Thread {
	p := s.cur
	var id uint64
	if p != nil && salt == 0 {
		p.nspawn++
		id = mix(p.id, p.nspawn^0x60)
	} else {
		id = mix(salt, 0x7133)
	}
	t := &Thread{idx: len(s.threads), id: id, Name: name, wake: make(chan struct{}, 1), hb: id, parked: true, pkind: KStart}
	s.threads = append(s.threads, t)
	go s.threadMain(t, f)
	return t
}

func (s *Sched) threadMain(t *Thread, f func()) {
	<-t.wake
	if t.killed {
		s.ack <- struct{}{}
		return
	}
	t.parked = false
	defer func() {
		r := recover()
		if t.killed || t.ender {
			s.ack <- struct{}{}
			return
		}
		if r != nil {
			buf := make([]byte, 8192)
			buf = buf[:runtime.Stack(buf, false)]
			s.crash = fmt.Sprintf("panic in thread %s: %v", t.Name, r)
			s.detail = s.crash + "\n" + string(buf)
			s.beginEnd(StCrash, t)
			s.ack <- struct{}{}
			return
		}
		if t.isMain {
			// main returned: let the other threads run (default choices, clock
			// frozen) until nothing is enabled; whoever is alive then is a leak
			s.mainReturned = true
			s.mainClock = s.clock
			s.draining = true
		}
		t.done = true
		s.schedule(nil)
		if t.ender {
			s.ack <- struct{}{}
		}
	}()
	f()
}

// endFrom ends the execution from within scheduling code running on thread
// from's goroutine (from may be a done thread or nil → the goroutine of
// s.cur at exit time).
func (s *Sched) endFrom(st Status, from *Thread, detail string) {
	if detail != "" {
		s.detail = detail
	}
	self := from
	if self == nil {
		self = s.exiting()
	}
	s.beginEnd(st, self)
	if !self.done {
		runtime.Goexit()
	}
}

// exiting returns the thread whose goroutine is running the scheduler after
// its exit (schedule(nil) is only called from threadMain's defer).
func (s *Sched) exiting() *Thread { return s.cur }

func (s *Sched) beginEnd(st Status, self *Thread) {
	s.status = st
	s.aborting = true
	self.ender = true
	go s.reap(self)
}

func (s *Sched) reap(self *Thread) {
	<-s.ack // self
	for _, t := range s.threads {
		if t == self || t.done {
			continue
		}
		t.killed = true
		t.wake <- struct{}{}
		<-s.ack
	}
	close(s.fin)
}

// Go starts f as a new thread (the rewrite of a go statement).
func Go(f func()) {
	s := S
	if s == nil {
		go f() // outside any execution (sequential E2 harnesses): the real thing
		return
	}
	if s.aborting {
		return
	}
	name := ""
	if s.trace || true {
		name = fmt.Sprintf("%s.%d", s.cur.Name, s.cur.nspawn+1)
	}
	s.Point(KGo, nil, nil)
	if s.aborting {
		return
	}
	t := s.spawn(f, name, 0)
	s.commit(s.cur, KGo, nil, false, t.id)
}

// GoNamed is Go with a readable thread name (harness use).
func GoNamed(name string, f func()) {
	s := S
	if s == nil || s.aborting {
		return
	}
	s.Point(KGo, nil, nil)
	if s.aborting {
		return
	}
	t := s.spawn(f, name, 0)
	s.commit(s.cur, KGo, nil, false, t.id)
}

// Yield is a pure scheduling point.
func Yield() {
	s := S
	s.Point(KYield, nil, nil)
	if s.aborting {
		return
	}
	s.commit(s.cur, KYield, nil, false, 0)
}

var waitObj Obj

// WaitUntil blocks the calling thread until pred holds. pred must only peek
// (no shim operations); it is evaluated by the scheduler.
func WaitUntil(desc string, pred func() bool) {
	s := S
	if s == nil || s.aborting {
		return
	}
	s.cur.pdesc = desc
	s.Point(KWaitUntil, nil, pred)
	s.cur.pdesc = ""
	if s.aborting {
		return
	}
	// the predicate may depend on anything: treat as a read of a global object
	s.commit(s.cur, KWaitUntil, &s.logObj, false, hashString(desc))
}

// Log appends to the execution's totally ordered event log; the append is a
// write on a scheduler object, so the logged order is part of the state key.
func Log(ev string) {
	s := S
	if s == nil || s.aborting {
		return
	}
	s.Point(KLog, &s.logObj, nil)
	if s.aborting {
		return
	}
	s.log = append(s.log, ev)
	s.logClock = append(s.logClock, s.clock)
	s.commit(s.cur, KLog, &s.logObj, true, hashString(ev))
}

// LogQuiet appends without a scheduling point (still hashed, still ordered).
func LogQuiet(ev string) {
	s := S
	if s == nil || s.aborting {
		return
	}
	s.log = append(s.log, ev)
	s.logClock = append(s.logClock, s.clock)
	s.commit(s.cur, KLog, &s.logObj, true, hashString(ev))
}

// Events returns the event log so far.
func Events() []string { return S.log }

// Fail records an oracle violation for this execution.
func Fail(oracle, keyDetail, msg string) {
	s := S
	if s == nil || (s.aborting && s.status != StOK) {
		return
	}
	s.viols = append(s.viols, Violation{Oracle: oracle, Key: oracle + ":" + keyDetail, Msg: msg})
}

// Clock returns the virtual clock in ns since the epoch of the execution. The
// value read is folded into the calling thread's hash (what a thread has seen
// of the clock is part of its state).
func Clock() int64 {
	s := S
	if s == nil {
		return 0
	}
	if !s.aborting && s.cur != nil {
		s.cur.hb = mix(s.cur.hb, uint64(s.clock)^0x0b5e)
	}
	return s.clock
}

// ThreadName of the running thread.
func ThreadName() string { return S.cur.Name }

// Cur returns the current execution (shim packages).
func Cur() *Sched { return S }

// CurThread returns the running thread.
func (s *Sched) CurThread() *Thread { return s.cur }

func (s *Sched) IsAborting() bool { return s == nil || s.aborting }

// QuietOp counts an atomic operation that is not a scheduling point. Code that loops over such operations only
// (a counter incremented four billion times) never reaches the step cap; past two million of them in one execution
// the thread panics, which ends the execution as a crash the harness can report instead of a hang.
func (s *Sched) QuietOp() {
	s.quietOps++
	if s.quietOps > 2_000_000 {
		s.quietOps = 0
		panic("vrt: runaway loop: more than 2000000 atomic operations without a scheduling point in one execution")
	}
}

func (s *Sched) Commit(kind uint8, o *Obj, write bool, res uint64) {
	if s == nil || s.aborting {
		return
	}
	s.commit(s.cur, kind, o, write, res)
}

func (s *Sched) SetDesc(d string) { s.cur.pdesc = d }

func (t *Thread) Signaled() bool     { return t.signaled }
func (t *Thread) SetSignaled(b bool) { t.signaled = b }
func (t *Thread) Granted() bool      { return t.granted }
func (t *Thread) SetGranted(b bool)  { t.granted = b }
func (t *Thread) Since() uint64      { return t.since }

// Touch is a scheduling point followed by a write (or read) on a harness
// object: it makes the order of harness-level events part of the state key.
func Touch(o *Obj, write bool, val uint64) {
	s := S
	if s == nil || s.aborting {
		return
	}
	s.Point(KLog, o, nil)
	if s.aborting {
		return
	}
	s.commit(s.cur, KLog, o, write, val)
}

// ExtCalls turns the rewriter-inserted points in front of calls to thread-safe
// objects of packages that are not rewritten (Prometheus vectors) into
// scheduling points. Set by a scenario's Setup; off by default.
var ExtCalls bool

var extObj Obj

// ExtCall is a scheduling point in front of such a call (a write to one global
// object: all of them are ordered with respect to each other).
func ExtCall(name string) {
	if !ExtCalls {
		return
	}
	Touch(&extObj, true, hashString(name))
}

// PlainPoints turns the rewriter-inserted points in front of writes to fields,
// elements and dereferences (plain shared memory) into scheduling points. Set by
// a scenario's Setup; off by default. With it on, two goroutines that update the
// same plain memory without synchronisation interleave at those writes (and
// between the read and the write of x.f++ / x.f += v), which is how a data race
// on a counter or a scratch buffer shows as a wrong result. Scenarios that use it
// run without the happens-before memo.
var PlainPoints bool

var plainObj Obj

func Plain() {
	if !PlainPoints {
		return
	}
	Touch(&plainObj, true, 0)
}

// LiveOthers returns how many threads other than the calling one have not
// finished. A harness calls it at the instant an operation that promises "no
// goroutine remains" returns. (Folded into the caller's hash: it is an
// observation of the other threads' progress.)
func LiveOthers() int {
	s := S
	if s == nil {
		return 0
	}
	n := 0
	for _, t := range s.threads {
		if t != s.cur && !t.done {
			n++
		}
	}
	if s.cur != nil {
		s.cur.hb = mix(s.cur.hb, uint64(n)+0x11fe)
	}
	return n
}

// Infra reports a situation the harness machinery cannot handle (not a property
// violation): the process exits with status 2, which the driver reports as an
// infrastructure error and never as a VIOLATION.
func Infra(msg string) {
	fmt.Fprintln(os.Stderr, "vrt: infrastructure error:", msg)
	os.Exit(2)
}

func (s *Sched) describeState() string {
	var b strings.Builder
	fmt.Fprintf(&b, "clock=%d cost=%d cur=%s |", s.clock, s.cost, s.cur.Name)
	for _, t := range s.threads {
		fmt.Fprintf(&b, " %s:%x:%s:done=%v", t.Name, t.hb&0xffff, kindNames[t.pkind], t.done)
	}
	b.WriteString(" | timers:")
	for _, tm := range s.timers {
		if tm.active {
			fmt.Fprintf(&b, " %s@%d:%x", tm.name, tm.deadline, tm.obj.hb&0xffff)
		}
	}
	b.WriteString(" | chans:")
	for _, c := range s.chans {
		if len(c.buf) > 0 || c.closed {
			fmt.Fprintf(&b, " %s:len=%d:closed=%v:%v", c.obj.Name, len(c.buf), c.closed, c.buf)
		}
	}
	return b.String()
}
