package vrt

// TimerHandle is the scheduler side of vtime.Timer / vtime.Ticker.
type TimerHandle struct {
	tm *timer
}

func (s *Sched) addTimer(tm *timer) {
	s.tseq++
	tm.seq = s.tseq
	tm.active = true
	s.timers = append(s.timers, tm)
}

// NewChanTimer arms a timer that sends the fire instant on ch (capacity 1,
// dropped if full). period > 0 makes it a ticker. Creation is a scheduling point.
func NewChanTimer[T any](ch chan T, d, period int64, name string) *TimerHandle {
	s := S
	h := &TimerHandle{}
	if s == nil || s.aborting {
		h.tm = &timer{obj: &Obj{}}
		return h
	}
	o := &Obj{Name: name}
	s.Point(KTimer, o, nil)
	if s.aborting {
		h.tm = &timer{obj: o}
		return h
	}
	c := s.shadowOf(ch)
	c.timerFed = true
	c.obj.Name = name + ".C"
	if d < 0 {
		d = 0
	}
	tm := &timer{obj: o, deadline: s.clock + d, period: period, ch: c, name: name}
	s.addTimer(tm)
	s.commit(s.cur, KTimer, o, true, uint64(tm.deadline))
	h.tm = tm
	return h
}

// NewFuncTimer arms a timer that runs f in a fresh thread when it fires.
func NewFuncTimer(f func(), d int64, name string) *TimerHandle {
	s := S
	h := &TimerHandle{}
	if s == nil || s.aborting {
		h.tm = &timer{obj: &Obj{}}
		return h
	}
	o := &Obj{Name: name}
	s.Point(KTimer, o, nil)
	if s.aborting {
		h.tm = &timer{obj: o}
		return h
	}
	if d < 0 {
		d = 0
	}
	tm := &timer{obj: o, deadline: s.clock + d, fn: f, name: name}
	s.addTimer(tm)
	s.commit(s.cur, KTimer, o, true, uint64(tm.deadline))
	h.tm = tm
	return h
}

// Stop disarms; reports whether the timer was still armed. Like the pre-1.23
// runtime it does not drain the channel.
func (h *TimerHandle) Stop() bool {
	s := S
	if s == nil || s.aborting {
		return false
	}
	tm := h.tm
	s.Point(KTimer, tm.obj, nil)
	if s.aborting {
		return false
	}
	was := tm.active
	tm.active = false
	s.gcTimers()
	s.commit(s.cur, KTimer, tm.obj, true, 2)
	return was
}

func (h *TimerHandle) Reset(d, period int64) bool {
	s := S
	if s == nil || s.aborting {
		return false
	}
	tm := h.tm
	s.Point(KTimer, tm.obj, nil)
	if s.aborting {
		return false
	}
	was := tm.active
	if d < 0 {
		d = 0
	}
	tm.deadline = s.clock + d
	tm.period = period
	if !was {
		s.addTimer(tm)
	}
	s.commit(s.cur, KTimer, tm.obj, true, uint64(tm.deadline)^3)
	return was
}

// Sleep blocks the calling thread for d of virtual time.
func Sleep(d int64) {
	s := S
	if s == nil || s.aborting {
		return
	}
	if d <= 0 {
		Yield()
		return
	}
	t := s.cur
	o := &Obj{Name: "sleep"}
	s.objID(o)
	t.signaled = false
	tm := &timer{obj: o, deadline: s.clock + d, sleeper: t, name: "sleep:" + t.Name}
	s.addTimer(tm)
	s.Point(KSleep, o, func() bool { return t.signaled })
	if s.aborting {
		return
	}
	t.signaled = false
	s.commit(t, KSleep, o, true, uint64(s.clock))
}
