package vrt

import (
	"fmt"
	"reflect"
)

// Channels keep their real Go types; the scheduler keeps a shadow per channel
// (keyed by the channel's pointer) that holds the buffer, the closed flag and
// is what all rewritten operations act on. Close additionally closes the real
// channel so un-rewritten observers still see it.

type chanState struct {
	obj      Obj
	cap      int
	buf      []any
	closed   bool
	real     any
	timerFed bool // written by timer fires (scheduler events): part of the state key
}

func chanPtr(ch any) uintptr {
	v := reflect.ValueOf(ch)
	if !v.IsValid() || v.Kind() != reflect.Chan {
		Infra(fmt.Sprintf("not a channel: %T", ch))
	}
	return v.Pointer()
}

func (s *Sched) shadowOf(ch any) *chanState {
	p := chanPtr(ch)
	if p == 0 {
		return nil
	}
	if c, ok := s.chans[p]; ok {
		return c
	}
	rv := reflect.ValueOf(ch)
	c := &chanState{cap: rv.Cap(), real: ch}
	// a channel that was closed before this execution began (a package-level "already
	// done" channel closed in an initialiser, say) starts closed here too
	if rv.Type().ChanDir()&reflect.RecvDir != 0 && rv.Len() == 0 {
		if x, ok := rv.TryRecv(); !ok && x.IsValid() {
			c.closed = true
		}
	}
	s.objID(&c.obj)
	s.chans[p] = c
	return c
}

// ShadowOf exposes the shadow for the time and context shims.
func (s *Sched) ShadowOf(ch any) *chanState { return s.shadowOf(ch) }

func (c *chanState) SetName(n string) { c.obj.Name = n }
func (c *chanState) Obj() *Obj        { return &c.obj }
func (c *chanState) Len() int         { return len(c.buf) }
func (c *chanState) Drain()           { c.buf = c.buf[:0] }

// SelCase is one case of a rewritten select.
type SelCase struct {
	c    *chanState
	send bool
	val  any
}

// SelResult is what Select returns.
type SelResult struct {
	I  int
	V  any
	OK bool
}

func CaseRecv[T any](ch <-chan T) SelCase {
	return SelCase{c: S.shadowOf(ch)}
}

func CaseSend[T any](ch chan<- T, v T) SelCase {
	return SelCase{c: S.shadowOf(ch), send: true, val: v}
}

// As converts a received value to the element type of ch.
func As[T any](ch <-chan T, v any) T {
	if v == nil {
		var z T
		return z
	}
	return v.(T)
}

func (s *Sched) pendingPartner(c *chanState, wantSend bool, self *Thread) *Thread {
	var best *Thread
	for _, t := range s.threads {
		if t == self || t.done || !t.parked || t.delivered || t.taken {
			continue
		}
		for _, pc := range t.pcases {
			if pc.c == c && pc.send == wantSend {
				if best == nil || t.since < best.since {
					best = t
				}
			}
		}
	}
	return best
}

func (s *Sched) caseReady(cs SelCase, self *Thread) bool {
	c := cs.c
	if c == nil {
		return false
	}
	if cs.send {
		if c.closed {
			return true // will panic
		}
		if len(c.buf) < c.cap {
			return true
		}
		return c.cap == 0 && s.pendingPartner(c, false, self) != nil
	}
	if len(c.buf) > 0 || c.closed {
		return true
	}
	return c.cap == 0 && s.pendingPartner(c, true, self) != nil
}

func caseIndex(t *Thread, c *chanState, send bool) int {
	for i, pc := range t.pcases {
		if pc.c == c && pc.send == send {
			return i
		}
	}
	return -1
}

// doSelect is the one implementation behind Send, Recv and Select.
func (s *Sched) doSelect(cases []SelCase, hasDefault bool, kind uint8) SelResult {
	t := s.cur
	if s.aborting {
		return SelResult{I: -1}
	}
	t.pcases = cases
	t.delivered, t.taken = false, false
	var obj *Obj
	if len(cases) == 1 && cases[0].c != nil {
		obj = &cases[0].c.obj
	}
	guard := func() bool {
		if hasDefault || t.delivered || t.taken {
			return true
		}
		for _, cs := range cases {
			if s.caseReady(cs, t) {
				return true
			}
		}
		return false
	}
	s.Point(kind, obj, guard)
	t.pcases = nil
	if s.aborting {
		return SelResult{I: -1}
	}
	if t.delivered { // a sender completed our receive while we were parked
		t.delivered = false
		r := SelResult{I: t.dcase, V: t.dval, OK: t.dok}
		s.commit(t, kind, &cases[r.I].c.obj, true, uint64(r.I))
		t.dval = nil
		return r
	}
	if t.taken { // a receiver took our value while we were parked
		t.taken = false
		r := SelResult{I: t.dcase}
		s.commit(t, kind, &cases[r.I].c.obj, true, uint64(r.I))
		return r
	}
	var ready []int
	for i, cs := range cases {
		if s.caseReady(cs, t) {
			ready = append(ready, i)
		}
	}
	if len(ready) == 0 {
		s.commit(t, kind, nil, false, ^uint64(0))
		return SelResult{I: -1}
	}
	pick := ready[0]
	if len(ready) > 1 {
		// The runtime picks uniformly among ready cases, so every alternative is
		// explored at no cost. Fairness bound: a case that was ready and passed
		// over SelectFairness times in a row by this thread must be taken next
		// (an execution that ignores a ready case for ever has probability 0 and
		// would make every loop around a select look non-terminating).
		forced := -1
		for _, i := range ready {
			if c := cases[i].c; t.starve[c] >= s.ex.SelectFairness {
				if forced < 0 || t.starve[c] > t.starve[cases[forced].c] {
					forced = i
				}
			}
		}
		if forced >= 0 {
			pick = forced
		} else {
			pick = ready[s.FreeChoice(len(ready), 's')]
			if s.aborting {
				return SelResult{I: -1}
			}
		}
		if t.starve == nil {
			t.starve = map[*chanState]int{}
		}
		var sig uint64
		for _, i := range ready {
			c := cases[i].c
			if i == pick {
				delete(t.starve, c)
			} else {
				t.starve[c]++
				sig += mix(c.obj.id, uint64(t.starve[c]))
			}
		}
		t.hb = mix(t.hb, sig^0x5e1)
	} else if len(t.starve) > 0 {
		for k := range t.starve {
			delete(t.starve, k)
		}
		t.hb = mix(t.hb, 0x5e10)
	}
	cs := cases[pick]
	c := cs.c
	res := SelResult{I: pick}
	if cs.send {
		if c.closed {
			panic("send on closed channel")
		}
		if c.cap > 0 {
			c.buf = append(c.buf, cs.val)
		} else if p := s.pendingPartner(c, false, t); p != nil {
			p.delivered, p.dval, p.dok = true, cs.val, true
			p.dcase = caseIndex(p, c, false)
		} else {
			c.buf = append(c.buf, cs.val)
		}
	} else {
		switch {
		case len(c.buf) > 0:
			res.V, res.OK = c.buf[0], true
			copy(c.buf, c.buf[1:])
			c.buf[len(c.buf)-1] = nil
			c.buf = c.buf[:len(c.buf)-1]
		case c.closed:
			res.V, res.OK = nil, false
		default:
			p := s.pendingPartner(c, true, t)
			i := caseIndex(p, c, true)
			res.V, res.OK = p.pcases[i].val, true
			p.taken, p.dcase = true, i
		}
	}
	s.commit(t, kind, &c.obj, true, uint64(pick))
	return res
}

func Select(hasDefault bool, cases ...SelCase) SelResult {
	return S.doSelect(cases, hasDefault, KSelect)
}

func Send[T any](ch chan<- T, v T) {
	s := S
	if s == nil || s.aborting {
		return
	}
	s.doSelect([]SelCase{{c: s.shadowOf(ch), send: true, val: v}}, false, KSend)
}

func Recv[T any](ch <-chan T) T {
	v, _ := Recv2(ch)
	return v
}

func Recv2[T any](ch <-chan T) (T, bool) {
	s := S
	var z T
	if s == nil || s.aborting {
		return z, false
	}
	r := s.doSelect([]SelCase{{c: s.shadowOf(ch)}}, false, KRecv)
	if r.V == nil {
		return z, r.OK
	}
	return r.V.(T), r.OK
}

func Close[T any](ch chan T) {
	s := S
	if s == nil {
		// outside any execution (package initialisers, harness set-up): the real thing
		close(ch)
		return
	}
	if s.aborting {
		return
	}
	c := s.shadowOf(ch)
	if c == nil {
		panic("close of nil channel")
	}
	s.Point(KClose, &c.obj, nil)
	if s.aborting {
		return
	}
	c.real = ch
	s.CloseShadow(c)
	s.commit(s.cur, KClose, &c.obj, true, 0)
}

// CloseShadow closes the shadow and the real channel (no scheduling point).
func (s *Sched) CloseShadow(c *chanState) {
	if c.closed {
		panic("close of closed channel")
	}
	c.closed = true
	reflect.ValueOf(c.real).Close()
}

func (c *chanState) Closed() bool { return c.closed }

// RangeArg is wrapped around the operand of every range statement that could
// be a range over a channel (the rewriter has no type information). It is the
// identity, except that a channel operand is an infrastructure error.
func RangeArg[T any](x T) T {
	if reflect.TypeOf(x) != nil && reflect.TypeOf(x).Kind() == reflect.Chan {
		Infra("range over a channel is not supported by the rewriter (" + reflect.TypeOf(x).String() + ")")
	}
	return x
}
