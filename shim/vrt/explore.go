package vrt

import (
	"encoding/json"
	"fmt"
	"os"
	"sort"
	"strings"
	"time"
)

// Explorer drives the stateless depth-first search over choice prefixes with
// a deviation bound (iterative context bounding) and an optional memo keyed
// by the happens-before hash of the execution so far.
type Explorer struct {
	Name           string
	Bound          int
	Delay          bool // delay-bounded policy instead of free switches at blocking points
	UseMemo        bool
	MaxSteps       uint64
	UnorderedSUT   bool // see confirmUnordered
	Horizon        int64 // virtual ns
	EarlyWindow    int64 // a timer may be fired early (deviation) only if due within this much virtual time
	Trace          bool
	SelectFairness int       // a ready select case is passed over at most this many times in a row (default 3)
	Deadline       time.Time // wall-clock budget: exceeding it stops the search, exhaustive=false
	MaxExec        int64
	Shard          int // this process explores subtrees with hash(depth-2 prefix) % Shards == Shard
	Shards         int

	memo      map[key]int32
	memoOwner map[key][]int // debugging (VRT_MEMO_DEBUG): the choice prefix that first reached each key
	memoDesc  map[key]string

	// Body runs as the main thread; Post runs afterwards in the driver's
	// context (all threads dead) and may add violations to the outcome.
	Body func()
	Post func(o *Outcome)

	Stats Stats
	Found map[string]*Finding
}

// Outcome of one execution.
type Outcome struct {
	Status     Status
	Detail     string
	Leaks      []string
	Timers     []string // timers still armed when main returned
	Violations []Violation
	Log        []string
	LogClock   []int64 // virtual clock at each log entry
	Clock      int64   // clock when main returned (or at end)
	EndClock   int64
	Cost       int
	Crash      string
	Hash       uint64
	Sig        string // set by Post: what the oracle observed (for counting distinct outcomes)
}

func (o *Outcome) Fail(oracle, keyDetail, msg string) {
	o.Violations = append(o.Violations, Violation{Oracle: oracle, Key: oracle + ":" + keyDetail, Msg: msg})
}

type Stats struct {
	Executions   int64            `json:"executions"`
	Points       int64            `json:"transitions"`
	Pruned       int64            `json:"pruned"`
	States       int64            `json:"states"`
	MaxPoints    int              `json:"max_points"`
	MaxSteps     uint64           `json:"max_steps"`
	StepCaps     int64            `json:"step_caps"`
	ByStatus     map[string]int64 `json:"by_status"`
	Outcomes     map[string]int64 `json:"outcomes"`
	BoundDone    int              `json:"bound_completed"`
	Exhaustive   bool             `json:"exhaustive"`
	StoppedEarly string           `json:"stopped_early,omitempty"`
	FreePoints   int64            `json:"free_choice_points"`
}

type Finding struct {
	Violation
	Config  string       `json:"config"`
	Choices []int        `json:"choices"`
	Bound   int          `json:"bound"`
	Delay   bool         `json:"delay_policy"`
	Cost    int          `json:"cost"`
	Count   int64        `json:"count"`
	Status  string       `json:"status"`
	Detail  string       `json:"detail,omitempty"`
	Trace   []TraceEntry `json:"trace,omitempty"`
	Log     []string     `json:"log,omitempty"`
	Where   []string     `json:"where,omitempty"`
}

func (e *Explorer) fatal(msg string) {
	fmt.Fprintln(os.Stderr, "vrt: infrastructure error:", msg)
	os.Exit(2)
}

type exec struct {
	points  []Point
	choices []int
	costAt  []int
	out     Outcome
}

func (e *Explorer) runOnce(prefix []int, trace bool) *exec {
	s := &Sched{ex: e, prefix: prefix, fin: make(chan struct{}), ack: make(chan struct{}), chans: map[uintptr]*chanState{}, trace: trace}
	s.logObj.Name = "eventlog"
	S = s
	main := &Thread{idx: 0, id: 0x4d41494e, Name: "main", wake: make(chan struct{}, 1), isMain: true, parked: true, pkind: KStart}
	main.hb = main.id
	s.threads = append(s.threads, main)
	s.cur = main
	s.objID(&s.logObj)
	go s.threadMain(main, e.Body)
	main.wake <- struct{}{}
	<-s.fin
	x := &exec{points: s.points, choices: s.choices, costAt: s.costAt}
	o := &x.out
	o.Status, o.Detail, o.Leaks, o.Violations, o.Log = s.status, s.detail, s.leaks, s.viols, s.log
	o.Timers = s.pendingTimers
	o.LogClock = s.logClock
	o.Clock, o.EndClock, o.Cost, o.Crash = s.mainClock, s.clock, s.cost, s.crash
	var hs []uint64
	for _, t := range s.threads {
		hs = append(hs, mix(t.id, t.hb))
	}
	sort.Slice(hs, func(i, j int) bool { return hs[i] < hs[j] })
	for _, h := range hs {
		o.Hash = mix(o.Hash, h)
	}
	if e.Post != nil && s.status != StPruned && s.status != StStepCap {
		e.Post(o)
	}
	if trace {
		lastEntries = s.entries
	}
	S = nil
	return x
}

var lastEntries []TraceEntry

func prefixShard(p []int, n int) int {
	h := uint64(1469598103934665603)
	for _, c := range p {
		h = mix(h, uint64(c)+1)
	}
	return int(h % uint64(n))
}

// Run explores everything with at most e.Bound deviations.
func (e *Explorer) Run() {
	if e.MaxSteps == 0 {
		e.MaxSteps = 20000
	}
	if e.SelectFairness == 0 {
		e.SelectFairness = 3
	}
	if e.UseMemo {
		e.memo = map[key]int32{}
		if os.Getenv("VRT_MEMO_DEBUG") != "" {
			e.memoOwner = map[key][]int{}
			e.memoDesc = map[key]string{}
		}
	}
	if e.Found == nil {
		e.Found = map[string]*Finding{}
	}
	e.Stats.ByStatus = map[string]int64{}
	e.Stats.Outcomes = map[string]int64{}
	e.Stats.Exhaustive = true
	type item struct {
		prefix []int
		depth  int // number of non-forced decisions made so far (for sharding)
	}
	stack := []item{{nil, 0}}
	for len(stack) > 0 {
		if !e.Deadline.IsZero() && time.Now().After(e.Deadline) {
			e.Stats.Exhaustive = false
			e.Stats.StoppedEarly = "wall-clock budget"
			break
		}
		if e.MaxExec > 0 && e.Stats.Executions >= e.MaxExec {
			e.Stats.Exhaustive = false
			e.Stats.StoppedEarly = "execution cap"
			break
		}
		it := stack[len(stack)-1]
		stack = stack[:len(stack)-1]
		x := e.runOnce(it.prefix, false)
		if !(e.Shards > 1 && e.Shard != 0 && it.depth <= 1) {
			e.account(x) // the root and its children are run by every shard, accounted by shard 0 only
		}
		for i := len(x.points) - 1; i >= len(it.prefix); i-- {
			p := x.points[i]
			for alt := p.N - 1; alt >= 1; alt-- {
				c := x.costAt[i]
				if alt >= p.NFree {
					c++
				}
				if c > e.Bound {
					continue
				}
				np := make([]int, i+1)
				copy(np, x.choices[:i])
				np[i] = alt
				if e.Shards > 1 && it.depth == 1 {
					// subtrees below the second decision are distributed over the shards
					// (every shard runs the root and its children; they are accounted once)
					if prefixShard(np, e.Shards) != e.Shard {
						continue
					}
				}
				stack = append(stack, item{np, it.depth + 1})
			}
		}
	}
	if e.Shards > 1 && e.Shard != 0 {
		// the default execution itself is accounted by shard 0 only
	}
	if e.memo != nil {
		e.Stats.States = int64(len(e.memo))
	} else {
		e.Stats.States = e.Stats.Points
	}
	if e.Stats.Exhaustive {
		e.Stats.BoundDone = e.Bound
	} else {
		e.Stats.BoundDone = -1
	}
}

func (e *Explorer) account(x *exec) {
	st := &e.Stats
	st.Executions++
	st.Points += int64(len(x.points))
	if len(x.points) > st.MaxPoints {
		st.MaxPoints = len(x.points)
	}
	for _, p := range x.points {
		if p.Kind != 't' {
			st.FreePoints++
		}
	}
	o := &x.out
	st.ByStatus[o.Status.String()]++
	switch o.Status {
	case StPruned:
		st.Pruned++
		return
	case StStepCap:
		st.StepCaps++
		st.Exhaustive = false
		st.StoppedEarly = "step cap hit in some executions"
		return
	}
	sig := o.Status.String()
	if len(o.Violations) > 0 {
		ks := []string{}
		for _, v := range o.Violations {
			ks = append(ks, v.Key)
		}
		sig += " VIOL " + strings.Join(ks, ",")
	}
	if o.Sig != "" {
		sig += " " + o.Sig
	}
	if len(o.Log) > 0 {
		sig += fmt.Sprintf(" log#%x", hashLog(o.Log)&0xffffff)
	}
	if len(st.Outcomes) < 4096 {
		st.Outcomes[sig]++
	}
	if os.Getenv("VRT_MEMO_DEBUG") != "" {
		fmt.Fprintf(os.Stderr, "DONE choices=%v sig=%s\n", x.choices, sig)
	}
	for _, v := range o.Violations {
		f, ok := e.Found[v.Key]
		if ok {
			f.Count++
			if o.Cost < f.Cost || (o.Cost == f.Cost && len(x.choices) < len(f.Choices)) {
				f.Choices, f.Cost = append([]int(nil), x.choices...), o.Cost
				f.Violation = v
			}
			continue
		}
		if len(e.Found) >= 64 {
			continue
		}
		e.Found[v.Key] = &Finding{Violation: v, Config: e.Name, Choices: append([]int(nil), x.choices...), Bound: e.Bound,
			Delay: e.Delay, Cost: o.Cost, Count: 1, Status: o.Status.String(), Detail: o.Detail}
	}
}

func hashLog(l []string) uint64 {
	h := uint64(7)
	for _, s := range l {
		h = mix(h, hashString(s))
	}
	return h
}

// Confirm re-executes a finding's choice list twice in trace mode and checks
// that both runs agree (same hash, same violation key). A disagreement is an
// infrastructure error (uncaptured nondeterminism), never a violation.
func (e *Explorer) Confirm(f *Finding) {
	saveMemo := e.memo
	e.memo = nil
	defer func() { e.memo = saveMemo }()
	if e.UnorderedSUT {
		e.confirmUnordered(f)
		return
	}
	var hashes [2]uint64
	for r := 0; r < 2; r++ {
		x := e.runOnce(f.Choices, true)
		hashes[r] = x.out.Hash
		got := false
		for _, v := range x.out.Violations {
			if v.Key == f.Key {
				got = true
			}
		}
		if !got {
			e.fatal(fmt.Sprintf("finding %s did not reproduce on replay %d (config %s): status %s", f.Key, r, e.Name, x.out.Status))
		}
		if r == 0 {
			e.fillFinding(f, x)
		}
	}
	if hashes[0] != hashes[1] {
		e.fatal(fmt.Sprintf("finding %s: replay hashes differ (%x vs %x): uncaptured nondeterminism", f.Key, hashes[0], hashes[1]))
	}
}

func (e *Explorer) fillFinding(f *Finding, x *exec) {
	f.Trace = lastEntries
	f.Log = x.out.Log
	f.Detail = x.out.Detail
	f.Status = x.out.Status.String()
	// deviation points: where the chosen alternative cost something
	for i, p := range x.points {
		if x.choices[i] >= p.NFree {
			f.Where = append(f.Where, fmt.Sprintf("point %d alt %d/%d", i, x.choices[i], p.N))
		}
	}
}

// confirmUnordered is Confirm for a scenario that declares a source of nondeterminism inside the code under test
// which no harness can own (the iteration order of a Go map that the code ranges over): the unmodified code
// must not depend on it, so on the unmodified tree every replay is identical anyway; a changed tree that does
// depend on it shows the violation in some replays and not in others. The finding is kept if the same choice list
// reproduces the same violation key in at least two of up to eight replays (each one an execution of the real
// code); otherwise it is dropped as an infrastructure error like any other finding that does not reproduce.
func (e *Explorer) confirmUnordered(f *Finding) {
	seen := 0
	for r := 0; r < 8 && seen < 2; r++ {
		x := e.runOnce(f.Choices, true)
		for _, v := range x.out.Violations {
			if v.Key == f.Key {
				seen++
				if seen == 1 {
					e.fillFinding(f, x)
				}
				break
			}
		}
	}
	if seen < 2 {
		e.fatal(fmt.Sprintf("finding %s reproduced in %d of 8 replays only (config %s, code under test ranges over a map)", f.Key, seen, e.Name))
	}
}

// Replay runs one choice list in trace mode and returns the outcome.
func (e *Explorer) Replay(choices []int) (*Outcome, []TraceEntry) {
	if e.MaxSteps == 0 {
		e.MaxSteps = 20000
	}
	e.memo = nil
	if e.SelectFairness == 0 {
		e.SelectFairness = 3
	}
	x := e.runOnce(choices, true)
	return &x.out, lastEntries
}

func (f *Finding) JSON() string {
	b, _ := json.MarshalIndent(f, "", " ")
	return string(b)
}

// RunDefault runs body once under the default schedule (no deviation, first
// alternative at every free choice) and returns the outcome. Sequential (E2)
// harnesses use it to drive a whole run or a trigger in virtual time.
func RunDefault(body func(), horizon time.Duration, maxSteps uint64) *Outcome {
	if maxSteps == 0 {
		maxSteps = 200000
	}
	e := &Explorer{Name: "default-schedule", MaxSteps: maxSteps, Horizon: int64(horizon), EarlyWindow: int64(2 * time.Second), SelectFairness: 3, Body: body}
	x := e.runOnce(nil, false)
	return &x.out
}
