// Package vsync replaces sync in rewritten packages. Semantics follow the Go
// runtime this build uses: no mutex fairness (barging allowed), RWMutex with
// writer preference exactly as implemented (a pending Lock blocks new RLocks;
// readers that queued behind a writer are granted the lock when it unlocks),
// Cond without spurious wake-ups and FIFO Signal.
package vsync

import (
	"github.com/form3tech-oss/f1/v2/internal/verifshim/vrt"
)

type Locker interface {
	Lock()
	Unlock()
}

// ---------------------------------------------------------------- Mutex

type Mutex struct {
	obj    vrt.Obj
	locked bool
}

func (m *Mutex) Lock() {
	s := vrt.Cur()
	if s.IsAborting() {
		return
	}
	s.Point(vrt.KLock, &m.obj, func() bool { return !m.locked })
	if s.IsAborting() {
		return
	}
	m.locked = true
	s.Commit(vrt.KLock, &m.obj, true, 0)
}

func (m *Mutex) TryLock() bool {
	s := vrt.Cur()
	if s.IsAborting() {
		return false
	}
	s.Point(vrt.KLock, &m.obj, nil)
	if s.IsAborting() {
		return false
	}
	if m.locked {
		s.Commit(vrt.KAtomicLoad, &m.obj, false, 1)
		return false
	}
	m.locked = true
	s.Commit(vrt.KLock, &m.obj, true, 0)
	return true
}

func (m *Mutex) Unlock() {
	s := vrt.Cur()
	if s.IsAborting() {
		return
	}
	s.Point(vrt.KUnlock, &m.obj, nil)
	if s.IsAborting() {
		return
	}
	if !m.locked {
		panic("sync: unlock of unlocked mutex")
	}
	m.locked = false
	s.Commit(vrt.KUnlock, &m.obj, true, 0)
}

func (m *Mutex) SetName(n string) { m.obj.Name = n }

// ---------------------------------------------------------------- RWMutex

type RWMutex struct {
	obj       vrt.Obj
	readers   int  // active readers
	wHeld     bool // the internal writer mutex (one writer announces at a time)
	announced bool // a writer has announced itself: new readers queue
	writer    bool // a writer holds the lock
	waiting   []*vrt.Thread
}

func (rw *RWMutex) RLock() {
	s := vrt.Cur()
	if s.IsAborting() {
		return
	}
	s.Point(vrt.KRLock, &rw.obj, nil)
	if s.IsAborting() {
		return
	}
	if !rw.announced {
		rw.readers++
		s.Commit(vrt.KRLock, &rw.obj, true, 0)
		return
	}
	// a writer is pending or active: queue behind it (this is what makes
	// recursive read-locking deadlock-prone)
	t := s.CurThread()
	t.SetGranted(false)
	rw.waiting = append(rw.waiting, t)
	s.Commit(vrt.KRLock, &rw.obj, true, 1)
	s.Point(vrt.KRLockWait, &rw.obj, func() bool { return t.Granted() })
	if s.IsAborting() {
		return
	}
	t.SetGranted(false)
	s.Commit(vrt.KRLockWait, &rw.obj, true, 0)
}

func (rw *RWMutex) TryRLock() bool {
	s := vrt.Cur()
	if s.IsAborting() {
		return false
	}
	s.Point(vrt.KRLock, &rw.obj, nil)
	if s.IsAborting() {
		return false
	}
	if rw.announced {
		s.Commit(vrt.KAtomicLoad, &rw.obj, false, 1)
		return false
	}
	rw.readers++
	s.Commit(vrt.KRLock, &rw.obj, true, 0)
	return true
}

func (rw *RWMutex) RUnlock() {
	s := vrt.Cur()
	if s.IsAborting() {
		return
	}
	s.Point(vrt.KRUnlock, &rw.obj, nil)
	if s.IsAborting() {
		return
	}
	if rw.readers <= 0 {
		panic("sync: RUnlock of unlocked RWMutex")
	}
	rw.readers--
	s.Commit(vrt.KRUnlock, &rw.obj, true, 0)
}

func (rw *RWMutex) Lock() {
	s := vrt.Cur()
	if s.IsAborting() {
		return
	}
	s.Point(vrt.KWLockAnnounce, &rw.obj, func() bool { return !rw.wHeld })
	if s.IsAborting() {
		return
	}
	rw.wHeld = true
	rw.announced = true
	s.Commit(vrt.KWLockAnnounce, &rw.obj, true, 0)
	s.Point(vrt.KWLockAcquire, &rw.obj, func() bool { return rw.readers == 0 })
	if s.IsAborting() {
		return
	}
	rw.writer = true
	s.Commit(vrt.KWLockAcquire, &rw.obj, true, 0)
}

func (rw *RWMutex) TryLock() bool {
	s := vrt.Cur()
	if s.IsAborting() {
		return false
	}
	s.Point(vrt.KWLockAnnounce, &rw.obj, nil)
	if s.IsAborting() {
		return false
	}
	if rw.wHeld || rw.readers > 0 {
		s.Commit(vrt.KAtomicLoad, &rw.obj, false, 1)
		return false
	}
	rw.wHeld, rw.announced, rw.writer = true, true, true
	s.Commit(vrt.KWLockAcquire, &rw.obj, true, 0)
	return true
}

func (rw *RWMutex) Unlock() {
	s := vrt.Cur()
	if s.IsAborting() {
		return
	}
	s.Point(vrt.KUnlock, &rw.obj, nil)
	if s.IsAborting() {
		return
	}
	if !rw.writer {
		panic("sync: Unlock of unlocked RWMutex")
	}
	rw.writer = false
	rw.announced = false
	rw.wHeld = false
	// readers that queued behind this writer now hold the lock
	for _, t := range rw.waiting {
		t.SetGranted(true)
		rw.readers++
	}
	rw.waiting = rw.waiting[:0]
	s.Commit(vrt.KUnlock, &rw.obj, true, 0)
}

type rlocker RWMutex

func (r *rlocker) Lock()   { (*RWMutex)(r).RLock() }
func (r *rlocker) Unlock() { (*RWMutex)(r).RUnlock() }

func (rw *RWMutex) RLocker() Locker  { return (*rlocker)(rw) }
func (rw *RWMutex) SetName(n string) { rw.obj.Name = n }

// ---------------------------------------------------------------- Cond

type Cond struct {
	L       Locker
	obj     vrt.Obj
	waiters []*vrt.Thread
}

func NewCond(l Locker) *Cond { return &Cond{L: l} }

func (c *Cond) Wait() {
	s := vrt.Cur()
	if s.IsAborting() {
		return
	}
	// atomically: enqueue, then release L (both happen before anyone else runs
	// only if L.Unlock does not yield: so enqueue first, which is what the
	// runtime's ticket does — a Signal after our Unlock must find us).
	s.Point(vrt.KCondWait, &c.obj, nil)
	if s.IsAborting() {
		return
	}
	t := s.CurThread()
	t.SetSignaled(false)
	c.waiters = append(c.waiters, t)
	s.Commit(vrt.KCondWait, &c.obj, true, 0)
	c.L.Unlock()
	s.Point(vrt.KCondWake, &c.obj, func() bool { return t.Signaled() })
	if s.IsAborting() {
		return
	}
	t.SetSignaled(false)
	s.Commit(vrt.KCondWake, &c.obj, true, 0)
	c.L.Lock()
}

func (c *Cond) Signal() {
	s := vrt.Cur()
	if s.IsAborting() {
		return
	}
	s.Point(vrt.KCondSignal, &c.obj, nil)
	if s.IsAborting() {
		return
	}
	if len(c.waiters) > 0 {
		c.waiters[0].SetSignaled(true)
		c.waiters = c.waiters[1:]
	}
	s.Commit(vrt.KCondSignal, &c.obj, true, 0)
}

func (c *Cond) Broadcast() {
	s := vrt.Cur()
	if s.IsAborting() {
		return
	}
	s.Point(vrt.KCondBroadcast, &c.obj, nil)
	if s.IsAborting() {
		return
	}
	for _, t := range c.waiters {
		t.SetSignaled(true)
	}
	c.waiters = nil
	s.Commit(vrt.KCondBroadcast, &c.obj, true, 0)
}

// ---------------------------------------------------------------- WaitGroup

// The real WaitGroup releases its waiters when the counter reaches zero and resets itself; a released
// waiter that finds the group in use again when it resumes (an Add from zero, or a new waiter, got in
// between) panics with "WaitGroup is reused before previous Wait has returned". That crash is part of
// the semantics modelled here: a waiter registers (one step), blocks until the generation it registered
// in has been released, and checks the group when it resumes.
type WaitGroup struct {
	obj     vrt.Obj
	n       int
	waiters int
	gen     int
}

func (wg *WaitGroup) Add(d int) {
	s := vrt.Cur()
	if s == nil {
		// outside any execution: single-threaded, only the counter matters
		wg.n += d
		if wg.n < 0 {
			panic("sync: negative WaitGroup counter")
		}
		return
	}
	if s.IsAborting() {
		return
	}
	s.Point(vrt.KWgAdd, &wg.obj, nil)
	if s.IsAborting() {
		return
	}
	wg.n += d
	if wg.n < 0 {
		panic("sync: negative WaitGroup counter")
	}
	if wg.n == 0 && wg.waiters > 0 {
		wg.waiters = 0
		wg.gen++
	}
	s.Commit(vrt.KWgAdd, &wg.obj, true, uint64(wg.n))
}

func (wg *WaitGroup) Done() { wg.Add(-1) }

func (wg *WaitGroup) Wait() {
	s := vrt.Cur()
	if s == nil {
		if wg.n != 0 {
			panic("vsync: WaitGroup.Wait outside an execution would block for ever")
		}
		return
	}
	if s.IsAborting() {
		return
	}
	s.Point(vrt.KWgWait, &wg.obj, nil)
	if s.IsAborting() {
		return
	}
	if wg.n == 0 {
		s.Commit(vrt.KWgWait, &wg.obj, false, 0)
		return
	}
	wg.waiters++
	my := wg.gen
	s.Commit(vrt.KWgWait, &wg.obj, true, uint64(wg.waiters))
	s.Point(vrt.KWgWait, &wg.obj, func() bool { return wg.gen != my })
	if s.IsAborting() {
		return
	}
	if wg.n != 0 || wg.waiters != 0 {
		panic("sync: WaitGroup is reused before previous Wait has returned")
	}
	s.Commit(vrt.KWgWait, &wg.obj, false, 0)
}

func (wg *WaitGroup) Go(f func()) {
	wg.Add(1)
	vrt.Go(func() {
		defer wg.Done()
		f()
	})
}

func (wg *WaitGroup) Peek() int        { return wg.n }
func (wg *WaitGroup) SetName(n string) { wg.obj.Name = n }

// ---------------------------------------------------------------- Once

type Once struct {
	obj     vrt.Obj
	done    bool
	running bool
}

func (o *Once) Do(f func()) {
	s := vrt.Cur()
	if s == nil {
		// outside any execution (harness set-up code): single-threaded, run it here
		if !o.done {
			o.done = true
			f()
		}
		return
	}
	if s.IsAborting() {
		return
	}
	s.Point(vrt.KOnce, &o.obj, func() bool { return !o.running })
	if s.IsAborting() {
		return
	}
	if o.done {
		s.Commit(vrt.KOnce, &o.obj, false, 1)
		return
	}
	o.running = true
	s.Commit(vrt.KOnce, &o.obj, true, 0)
	defer func() {
		o.running = false
		o.done = true
		s.Commit(vrt.KOnceDone, &o.obj, true, 0)
	}()
	f()
}

func OnceFunc(f func()) func() {
	var o Once
	return func() { o.Do(f) }
}

func OnceValue[T any](f func() T) func() T {
	var o Once
	var v T
	return func() T {
		o.Do(func() { v = f() })
		return v
	}
}

// ---------------------------------------------------------------- Map, Pool

// Map is a mutex-protected map; every operation is one scheduling point.
type Map struct {
	obj vrt.Obj
	m   map[any]any
	gen uint64
}

func (m *Map) op(write bool) bool {
	s := vrt.Cur()
	if s == nil {
		// outside any execution (sequential code called directly by an enumeration harness): single-threaded,
		// the map simply works
		if m.m == nil {
			m.m = map[any]any{}
		}
		return true
	}
	if s.IsAborting() {
		return false
	}
	s.Point(vrt.KMapOp, &m.obj, nil)
	if s.IsAborting() {
		return false
	}
	if write {
		m.gen++
	}
	s.Commit(vrt.KMapOp, &m.obj, write, m.gen)
	if m.m == nil {
		m.m = map[any]any{}
	}
	return true
}

func (m *Map) Load(k any) (any, bool) {
	if !m.op(false) {
		return nil, false
	}
	v, ok := m.m[k]
	return v, ok
}

func (m *Map) Store(k, v any) {
	if m.op(true) {
		m.m[k] = v
	}
}

func (m *Map) LoadOrStore(k, v any) (any, bool) {
	if !m.op(true) {
		return v, false
	}
	if old, ok := m.m[k]; ok {
		return old, true
	}
	m.m[k] = v
	return v, false
}

func (m *Map) LoadAndDelete(k any) (any, bool) {
	if !m.op(true) {
		return nil, false
	}
	v, ok := m.m[k]
	delete(m.m, k)
	return v, ok
}

func (m *Map) Delete(k any) {
	if m.op(true) {
		delete(m.m, k)
	}
}

func (m *Map) Swap(k, v any) (any, bool) {
	if !m.op(true) {
		return nil, false
	}
	old, ok := m.m[k]
	m.m[k] = v
	return old, ok
}

func (m *Map) Range(f func(k, v any) bool) {
	if !m.op(false) {
		return
	}
	for k, v := range m.m {
		if !f(k, v) {
			return
		}
	}
}

// Pool never reuses (a legal behaviour of sync.Pool).
type Pool struct {
	New func() any
}

func (p *Pool) Get() any {
	if p.New != nil {
		return p.New()
	}
	return nil
}
func (p *Pool) Put(any) {}
