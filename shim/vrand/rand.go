// Package vrand replaces math/rand in rewritten packages. By default every
// draw returns 0 (no jitter, first element); a harness may install a finite
// alphabet, in which case each draw is a free choice point over it.
package vrand

import (
	"math/rand"

	"github.com/form3tech-oss/f1/v2/internal/verifshim/vrt"
)

// Floats is the alphabet for Float64 (nil: always 0).
var Floats []float64

// IntFn, if set, maps Intn's argument to the alphabet of answers.
var IntFn func(n int) []int

// Script, if set, answers Float64 outside any vrt execution (sequential E2 harnesses).
var Script func() float64

func Float64() float64 {
	if Script != nil {
		return Script()
	}
	s := vrt.Cur()
	if s == nil || len(Floats) == 0 {
		return 0
	}
	i := s.FreeChoice(len(Floats), 'r')
	return Floats[i]
}

func Intn(n int) int {
	if n <= 0 {
		panic("invalid argument to Intn")
	}
	s := vrt.Cur()
	if s == nil || IntFn == nil {
		return 0
	}
	a := IntFn(n)
	return a[s.FreeChoice(len(a), 'r')]
}

// NormFloat64 and ExpFloat64 are driven by the same alphabet as Float64 (a normal
// or exponential variate can be any real / any non-negative real; the alphabet's
// u in [0, 1/2] maps to z in [-4, 4] and to x in [0, 8]).
func NormFloat64() float64 { return 16 * (Float64() - 0.25) }
func ExpFloat64() float64  { return 16 * Float64() }
func Float32() float32     { return float32(Float64()) }
func Uint32() uint32       { return 0 }
func Uint64() uint64       { return 0 }
func Int31() int32         { return 0 }
func Seed(int64)           {}

func Int() int             { return 0 }
func Int63() int64         { return 0 }
func Int63n(n int64) int64 { return int64(Intn(int(n))) }
func Int31n(n int32) int32 { return int32(Intn(int(n))) }
func Perm(n int) []int {
	p := make([]int, n)
	for i := range p {
		p[i] = i
	}
	return p
}
func Shuffle(int, func(i, j int)) {}

type (
	Rand   = rand.Rand
	Source = rand.Source
)

func New(src Source) *Rand        { return rand.New(src) }
func NewSource(seed int64) Source { return rand.NewSource(seed) }
