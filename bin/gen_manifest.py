#!/usr/bin/env python3
"""Regenerates MANIFEST.json from bin/props.py (claimed checks) and the not-applicable list."""
import json, os, sys
VERIF = os.path.dirname(os.path.dirname(os.path.abspath(__file__)))
sys.path.insert(0, os.path.join(VERIF, "bin"))
from props import PROPS, NOT_APPLICABLE, LEVELS

all_ids = [json.loads(l)["id"] for l in open(os.path.join(VERIF, "properties.jsonl"))]
checks = []
for pid in all_ids:
    if pid not in PROPS:
        continue
    lv = LEVELS[pid]
    checks.append({
        "property_id": pid,
        "quick_cmd": "bin/check %s --tier quick" % pid,
        "thorough_cmd": "bin/check %s --tier thorough" % pid,
        "evidence_file": "/verif/evidence/%s.json" % pid,
        "replay_cmd_template": "bin/check replay {path}",
        "engine": lv["engine"],
        "level_claimed": {"category": "model_checking", "text": lv["text"], "design_ref": "DESIGN.md §3 " + pid},
        "level_note": lv["note"],
        "technique": lv["technique"],
    })
na = [{"property_id": p, "reason": NOT_APPLICABLE.get(p, "check not built yet in this round; see DESIGN.md §3 for the planned harness")}
      for p in all_ids if p not in PROPS]
m = {
    "version": 1,
    "setup_cmd": "make -C /verif setup",
    "hooks": {
        "guard": "verif",
        "enable": "go build -overlay <generated> -tags verif (bin/check writes the overlay: rewritten f1 packages, shim packages, harnesses and read-only accessor files are virtual files inside the f1 module; /repo itself carries no instrumentation)",
        "baseline_off_cmd": "cd /repo && go test -vet=off -count=1 ./...",
        "source_commits": [],
        "add_only": True,
    },
    "engines": [
        {"name": "vrt", "path": "/verif/shim/vrt", "serves_properties": [p for p in all_ids if p in PROPS and LEVELS[p]["engine"] == "vrt"],
         "kind_free_text": "stateless model checker: the real f1 packages, mechanically rewritten (tools/rewrite), run under a hand-written cooperative scheduler with virtual time; depth-first search over choice prefixes with iterative deviation bounding and happens-before memoisation"},
        {"name": "enum", "path": "/verif/harness", "serves_properties": [p for p in all_ids if p in PROPS and LEVELS[p]["engine"] == "enum"],
         "kind_free_text": "bounded-exhaustive enumeration of inputs / operation sequences over stated finite alphabets against boring reference models written in Go"},
    ],
    "checks": checks,
    "not_applicable": na,
    "notes": "Exit codes: 0 held on everything explored, 1 + VIOLATION line, 2 infrastructure error (never a VIOLATION). Known findings: /verif/known_findings.txt.",
}
json.dump(m, open(os.path.join(VERIF, "MANIFEST.json"), "w"), indent=1)
print("MANIFEST.json: %d checks, %d not applicable" % (len(checks), len(na)))
