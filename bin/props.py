# Per-property check configuration for bin/check.
E2_ASSUME = [
    "E2: every case of the stated finite alphabet is evaluated on the real functions (compiled from the current tree) and compared with an independent reference model written in Go; values outside the alphabet are outside",
]
E1_ASSUME = [
    "E1: the real f1 packages run after a syntactic rewrite (tools/rewrite) under the vrt cooperative scheduler; shim semantics of sync, sync/atomic, channels, context and time are a trusted base cross-checked by the litmus suite",
    "E1 sees synchronisation steps only: data races on plain memory are outside (advisory free-running -race pass only)",
    "memo pruning assumes data-race freedom and that untracked shared operations (prometheus observe) commute",
]
PROPS = {
    "C01": {
        "parts": [{"harness": "c01", "budget": {"quick": 40, "thorough": 600}, "shards": {"quick": "ncpu", "thorough": "ncpu"}}],
        "rule": "one execution = one complete interleaving (choice sequence) of the scenario; distinct = distinct observed outcome signatures (status, violations, event-log hash)",
        "assumptions": E1_ASSUME,
    },
    "C02": {
        "parts": [{"harness": "pools", "args": ["-prop", "C02"], "budget": {"quick": 60, "thorough": 1800}, "shards": {"quick": "ncpu", "thorough": "ncpu"}}],
        "rule": "one execution = one complete interleaving of the ticking thread, the workers, the canceller and the pool's stop goroutine; distinct = distinct outcome signatures (status, violations, started/dropped counts)",
        "assumptions": E1_ASSUME + ["interleavings inside progress.Stats are not explored here (its atomics are single steps without own scheduling points): that is C01's harness"],
    },
    "C03": {
        "parts": [{"harness": "pools", "args": ["-prop", "C03"], "budget": {"quick": 60, "thorough": 1800}, "shards": {"quick": "ncpu", "thorough": "ncpu"}}],
        "rule": "one execution = one complete interleaving of ticking thread, workers and stop path (trigger pool, continuous pool, two config-file stages sharing one manager); distinct = distinct outcome signatures (status, violations, started/dropped/high-water)",
        "assumptions": E1_ASSUME + ["interleavings inside progress.Stats are not explored here (C01's harness)", "three-worker scenarios use the delay-bounded policy (every departure from the deterministic scheduler costs 1)"],
    },
    "C04": {
        "parts": [{"harness": "pools", "args": ["-prop", "C04"], "budget": {"quick": 60, "thorough": 1800}, "shards": {"quick": "ncpu", "thorough": "ncpu"}}],
        "rule": "one execution = one complete interleaving; bodies contain a scheduling point and a tracked enter/leave so overlap is schedulable and its order is part of the state key; distinct = distinct outcome signatures (status, violations, started/dropped/high-water)",
        "assumptions": E1_ASSUME + ["interleavings inside progress.Stats are not explored here (C01's harness)", "three-worker scenarios use the delay-bounded policy", "file mode (a new stage's pool overlapping the previous stage's in-flight work) is outside the statement and not checked"],
    },
    "C05": {
        "parts": [{"harness": "c05", "budget": {"quick": 90, "thorough": 3000}, "shards": {"quick": "ncpu", "thorough": "ncpu"}}],
        "rule": "one execution = one complete schedule of a whole Run.Do (threads, select choices, same-instant timer orders, early timer expiries) in virtual time; distinct = distinct outcome signatures (status, violations, iterations begun, timeout fired, return instant, ordered event log)",
        "assumptions": E1_ASSUME + ["virtual time: the 10 ms / 20 ms guards being enough in wall-clock terms and goroutines inside un-rewritten third-party code are outside",
                                    "scenarios with a caller cancel, two workers or a config file use the delay-bounded policy",
                                    "'stops requesting on time' is checked on the default schedule only: under deviations the goroutine that turns the cancellation into the stop flag may itself be the slow one"],
    },
    "C08": {
        "parts": [{"harness": "c08", "budget": {"quick": 30, "thorough": 300}, "shards": {"quick": 4, "thorough": "ncpu"}}],
        "rule": "cases = (successful, failed, dropped) in [0..8]^3 (thorough [0..20]^3) x error set x ignore-dropped x max-failures {0,1,2,5} x max-failures-rate {0,1,5,10,33,50,99,100}, plus totals 1..40 x failed 0..6 x rate 1..100; distinct non-trivial = distinct combinations of which clauses of the documented rule hold",
        "assumptions": E2_ASSUME + ["the CLI layer (exit status = verdict) is covered by the whole-run harness of C06/C07 scenarios, not here"],
    },
    "C10": {
        "parts": [{"harness": "c10", "budget": {"quick": 30, "thorough": 600}, "shards": {"quick": 4, "thorough": 'ncpu'}}],
        "rule": 'cases = stage lists of length <=3 over durations {0,700ms,1s,3s} x targets {0,1,2,7,100}, queried at the 250 ms grid plus every boundary -1ns/=/+1ns, as all non-decreasing sequences of length <=2 (<=3 for <=2 stages), with and without a given start; ramp: start,end in {0,1,2,10,100}^2 x durations {1s,2.5s,10s} x units {1s,100ms}; distinct = (stage index, over, direction) classes',
        "assumptions": E2_ASSUME,
    },
    "C12": {
        "parts": [{"harness": "c12", "budget": {"quick": 30, "thorough": 600}, "shards": {"quick": 4, "thorough": 'ncpu'}}],
        "rule": 'regular: N in 2..100 (thorough 2..600) x three intervals per N (multiple of 100 ms, +15 ms, +99 ms) x rate 0..300 (thorough 0..1500, and 0..20000 step 7 for N<=60), two cycles with a changed rate; random: N<=4 (thorough 5) x rate {0,1,2,5,10} x every answer sequence of the random source over {0,n/2,n-1,n,n+5}; all rate triples over {0,1,3,7,10} for 3 cycles; pass-through and unknown kinds; distinct = (N class, rate class) / answer scripts',
        "assumptions": E2_ASSUME,
    },
    "C13": {
        "parts": [{"harness": "c13", "budget": {"quick": 30, "thorough": 600}, "shards": {"quick": 4, "thorough": 'ncpu'}}],
        "rule": 'jitter in {0,1,20,50,99,99.9} x 8 rate sequences (constants 0,1,3,10,1000, burst, alternation, ramp) x every sequence of length 6 (thorough 8) of random outcomes u in {0,1/8,1/4,3/8,1/2} (cos 2*pi*u = 1, .71, 0, -.71, -1); distinct = first scripts per (jitter, sequence)',
        "assumptions": E2_ASSUME + ['the random variation is explored over 5 values of the uniform draw (both extremes, the centre and two interior points of the cosine), not over all floats'],
    },
    "C20": {
        "parts": [{"harness": "c20", "budget": {"quick": 20, "thorough": 60}, "shards": {"quick": 1, "thorough": 1}}],
        "rule": 'programs = 1..3 components, each setup and each iteration function in {pass, Fail, FailNow, panic}: 16+256+4096 = 4368 programs, two iterations each, through the real ActiveScenario.Setup/Run; distinct = (components, first stopping setup, first stopping iteration function)',
        "assumptions": E2_ASSUME,
    },
    "C11": {
        "parts": [{"harness": "c11", "budget": {"quick": 30, "thorough": 600}, "shards": {"quick": 4, "thorough": 'ncpu'}}],
        "rule": 'configs = volume {0,1,7,100,1000,86400} x (repeat,frequency) {(1m,1s),(1m,30s),(10m,10s),(1h,1m),(24h,1m: thorough only)} x peak {0,R/4,R/2,14R/24,R-f} x stddev {f,3f,R/10,R/4,R,10R} x weights {none,[1],[1,2],[2,1,.5],[0,1],seven 1s}, every tick of len(weights) consecutive windows; distinct = (ticks, peak, sigma/R, weights, volume>0) classes',
        "assumptions": E2_ASSUME + ['floating-point values other than those of the grid are outside; weights are non-negative with positive mean'],
    },
    "C14": {
        "parts": [{"harness": "c14", "budget": {"quick": 60, "thorough": 1200}, "shards": {"quick": 4, "thorough": 'ncpu'}}],
        "rule": 'rate strings: all strings of length <=5 (thorough 6) over {0,1,5,/,s,m,h,.,-,+,space}; stages strings: all strings of length <=5 (thorough 6) over {1,0,s,m,:,comma,space,-,x}; CLI: per mode the product of each flag over {default, valid, 0, negative, malformed}, each run through the real cobra command in virtual time; YAML: per mode every field in stage / default only / absent (3^k patterns), numeric fields valid/0/negative, limits present/absent/non-positive, each accepted plan run; bytes: all documents of length <=2 (thorough 3) over 25 YAML-significant symbols plus the complete one-edit neighbourhood of a valid config; distinct = (accepted value | rejected) classes',
        "assumptions": E2_ASSUME + ['accepted inputs are driven on the default schedule only (one execution each)', 'strings longer than the bound and YAML documents other than the enumerated ones are outside'],
    },
    "C19": {
        "parts": [{"harness": "c19", "budget": {"quick": 30, "thorough": 120}, "shards": {"quick": 4, "thorough": 'ncpu'}}],
        "rule": 'cases = counts {0,1,2,10,1000}^3 x duration statistics {0,1ns,1ms,1h} x elapsed {0,400ms,1s,90s} x error {nil, plain, one containing template syntax, percent and a newline} x verdict x log path x {plain, colour} template, plus the structured-log form; progress lines for the same counts x period; run.Result-level: counts {0,1,3}^3 x error x rate; distinct = (zero pattern, error, verdict)',
        "assumptions": E2_ASSUME,
    },
    "C15": {
        "parts": [{"harness": "c15", "budget": {"quick": 30, "thorough": 300}, "shards": {"quick": 4, "thorough": "ncpu"}},
                  {"harness": "c15run", "budget": {"quick": 40, "thorough": 900}, "shards": {"quick": "ncpu", "thorough": "ncpu"}}],
        "rule": "parse part: stage lists of length <=2 (thorough 3) over 5 modes x durations {1s,2s}, each stage carrying a marker parameter, stage-start absent / given, now in {start-1s, every cumulative end -1ns/=/+1ns, after the end}; per mode every field (plus duration, mode, parameters) sourced from stage only / default only / both: 3^k patterns (gaussian 3^11 in thorough); run part: 7 hand-built stage plans (distinct / overlapping parameter keys, users stages, caller cancel) explored over all schedules within the deviation bound; distinct = kept-stage patterns / source patterns / outcome signatures",
        "assumptions": E2_ASSUME + E1_ASSUME + ["the environment (os.Setenv) is real process state, reset at the start of every execution; only the triggering goroutine's view is checked, in-flight bodies of a previous stage are not"],
    },
    "C18": {
        "parts": [{"harness": "c18", "budget": {"quick": 30, "thorough": 300}, "shards": {"quick": 1, "thorough": 1}}],
        "rule": "one execution = one complete interleaving + timer order of the scenario (schedule list x function duration x Restart/Stop/cancel script); distinct = distinct outcome signatures (status, violations, ordered event log)",
        "assumptions": E1_ASSUME + ["virtual time: timer accuracy of the real runtime is outside; early timer expiry (a slow goroutine) is a deviation bounded together with preemptions, reaching at most 2 s ahead"],
    },
}

NOT_APPLICABLE = {}

E1_NOTE = ("Trusted base: the vrt shim semantics (sync, atomic, channels, context, virtual time; validated by the litmus suite), the syntactic rewriter, "
           "the Go compiler. Assumes data-race freedom of f1 (plain-memory races are invisible to a cooperative scheduler). Bounds are reported per scenario in the evidence.")
LEVELS = {
    "C01": {"engine": "vrt", "technique": "stateless model checking of the real code: exhaustive enumeration of thread interleavings up to a preemption bound (happens-before memo completes small scenarios without a bound)",
            "text": "Every interleaving (up to the stated deviation bound, unbounded for the small scenarios) of recorder threads, progress snapshots and the final totals is executed on the real progress.Stats / run.Result / metrics code and the final counts are compared with ground truth; this is the level at which a lost update between two atomics is decidable, which no test run can force.",
            "note": E1_NOTE},
    "C02": {"engine": "vrt", "technique": "stateless model checking of the real worker pool under a controlled scheduler: all interleavings up to a preemption bound (free switches at blocking points) plus delay-bounded exploration for more workers, against a counter reference model",
            "text": "The real PoolManager/TriggerPool/ActiveScenario are driven by a scripted ticking thread (tick sizes, quiescent or back-to-back ticks, gated bodies, cancel after/at/racing the last tick, max-iterations); every interleaving within the bound is executed and conservation (started + dropped = requested, nothing pending for ever, nothing both), exactness at quiescent ticks against a counter model and silence of the limit path are checked on each.",
            "note": E1_NOTE},
    "C03": {"engine": "vrt", "technique": "stateless model checking of the real pools under a controlled scheduler: all interleavings of workers competing for the last iteration ids up to a preemption / delay bound",
            "text": "Workers of the real TriggerPool / ContinuousPool (and two config-file stages sharing one PoolManager) compete for iteration ids under every interleaving within the bound; invocations never exceed N in any state, equal N when requests suffice or the limit is reported reached, ids are exactly 1..k, and MaxIterationsReached agrees with whether a request was refused.",
            "note": E1_NOTE},
    "C04": {"engine": "vrt", "technique": "stateless model checking of the real pools under a controlled scheduler: all interleavings up to a preemption / delay bound with in-flight tracking and barrier bodies (deadlock = violation)",
            "text": "Bodies track the in-flight count, its high-water mark and the set of live test handles under every interleaving within the bound (ceiling and handle exclusivity in every state); barrier bodies that only finish when `concurrency` bodies are inside must terminate in every schedule, so a lost wake-up or an unusable worker shows up as a deadlock.",
            "note": E1_NOTE},
    "C05": {"engine": "vrt", "technique": "stateless model checking of whole Run.Do executions under a controlled scheduler with virtual time: deadlock detection and a virtual-time horizon decide termination over all schedules within a deviation bound",
            "text": "The real run.NewRun(...).Do runs on the rewritten stack in virtual time for a grid of trigger mode x ending (duration, trigger end, limit, caller cancel at chosen instants, failed setup) x body pattern (instant, sleeping, never finishing); in every schedule within the bound Do must return (deadlock / horizon otherwise), nothing may be unfinished, start or be reported after it returned without the completion timeout, and no thread may be left.",
            "note": E1_NOTE},
    "C08": {"engine": "enum", "technique": "bounded-exhaustive enumeration of all count triples x error sets x option combinations over a stated alphabet, against the documented rule in exact integer arithmetic",
            "text": "Every combination of (successful, failed, dropped) up to 20 each, error set, ignore-dropped, max-failures and max-failures-rate is fed through the real progress.Stats and run.Result and Failed()/Error() are compared with the documented rule evaluated in exact integer arithmetic; a panic is an outcome. Totals up to 40 with every rate 1..100 cover the non-integral percentages.",
            "note": "Trusted base: the reference rule (5 lines), the Go compiler. Values outside the alphabet (counts > 40, rates > 100) are not explored."},
    "C10": {"engine": "enum", "technique": "bounded-exhaustive enumeration of stage lists and non-decreasing query sequences against exact rational interpolation, with a stepped-vs-direct differential for the calculator's cursor",
            "text": "Every stage list over the alphabet is built through the real CalculateStagedRate / CalculateRampRate and queried with every non-decreasing sequence of instants from a grid that contains each stage boundary and its 1 ns neighbours; each value is compared with exact rational interpolation (within 1, inside the stage's targets, monotone, 0 after the end, Duration = sum) and the value after stepping through earlier instants must equal the value asked directly.",
            "note": 'Trusted base: the reference model in the harness, the Go compiler. Values outside the stated alphabet are not explored.'},
    "C12": {"engine": "enum", "technique": 'bounded-exhaustive enumeration of (cycle length, rate) and of every random-source answer sequence over a 5-point alphabet, against per-cycle conservation',
            "text": 'Per cycle of N sub-ticks of the real NewDistribution: every value non-negative, the sum equals what the underlying rate function returned for that cycle, the underlying function is called exactly once per cycle, the regular variant is even (max-min <= 1); intervals <= 100 ms and kind none pass through, unknown kinds are errors.',
            "note": 'Trusted base: the reference model in the harness, the Go compiler. Values outside the stated alphabet are not explored.'},
    "C13": {"engine": "enum", "technique": 'bounded-exhaustive enumeration of every random-outcome sequence over a 5-point alphabet against the carry recurrence and its fixed-point bound',
            "text": 'The real WithJitter (its math/rand replaced by a scripted source) is run for every outcome sequence: outputs are non-negative integers, each lies within jitter percent plus rounding of rate plus carried remainder, the running total stays within the fixed bound (j*Rmax+1/2)/(1-j) of the un-jittered total, zero jitter is the identity and draws nothing.',
            "note": 'Trusted base: the reference model in the harness, the Go compiler. Values outside the stated alphabet are not explored.'},
    "C20": {"engine": "enum", "technique": 'exhaustive enumeration of all 4368 component-behaviour programs against a list-based reference of the expected call sequence',
            "text": "Every program is run through f1.CombineScenarios and the real ActiveScenario: the observed call sequence (with the handle each call received) must equal the reference sequence - setups once each in order on one handle, stopping at the first FailNow/panic; per iteration the functions in order with that iteration's handle, later ones skipped after a FailNow/panic in that iteration only - and setup / iteration verdicts must match.",
            "note": 'Trusted base: the reference model in the harness, the Go compiler. Values outside the stated alphabet are not explored.'},
    "C11": {"engine": "enum", "technique": "bounded-exhaustive enumeration of a parameter grid, every tick of every window, against the carry invariant (via a x10^6 shadow calculator) and a discretisation bracket computed from the harness's own pdf/cdf",
            "text": "Every configuration of the grid is evaluated tick by tick over as many windows as there are weights: the cumulative requests equal the floor of the cumulative real-valued rates at every tick (fractions carried, not lost), each window's total lies inside the bracket that the tick frequency's discretisation allows around volume x weight / mean weight, values are never negative and no tick exceeds the tick at the peak by more than one.",
            "note": 'Trusted base: the reference model in the harness, the Go compiler. Values outside the stated alphabet are not explored.'},
    "C14": {"engine": "enum", "technique": 'bounded-exhaustive enumeration of all strings up to a length bound and of flag / YAML field products against an independent parser of the documented grammar; accepted inputs are driven through the real CLI on the default virtual-time schedule',
            "text": 'No input may panic; an error must come before setup runs; an accepted input must have a positive tick interval and at least one worker and its run must neither crash nor hang; where the documented grammar N/<duration> defines a meaning the accepted value must equal it. Strings the code accepts but the grammar gives no meaning to are counted, not violations.',
            "note": 'Trusted base: the reference model in the harness, the Go compiler. Values outside the stated alphabet are not explored.'},
    "C19": {"engine": "enum", "technique": 'bounded-exhaustive enumeration of result / progress data over a small alphabet; the rendered text and the structured log record are parsed back and compared with the data',
            "text": 'Every combination is rendered with both templates and logged through a JSON slog handler; counts, the started line, each percentage (= 100 x count / all iterations to two decimals), the banner and the error text are parsed back and must equal the data; rendering must not panic; and the data run.Result hands to the views must equal its snapshot.',
            "note": 'Trusted base: the reference model in the harness, the Go compiler. Values outside the stated alphabet are not explored.'},
    "C15": {"engine": "enum", "technique": "bounded-exhaustive enumeration of stage lists x restart instants x field-source patterns against a reference plan and a differential trigger built from the effective fields; the run part is stateless model checking of the real stages worker in virtual time",
            "text": "Every stage list is parsed at every restart instant that matters (each cumulative stage end and its 1 ns neighbours) and the kept stages, their order, durations, the total duration and the limits are compared with the reference rule; every pattern of field sources is compared behaviourally (tick interval and 25 rate values, jitter made visible by a scripted random source) with a trigger built directly from the effective values. The run part executes the real stages worker under all schedules within the bound: each stage's rate function must see exactly its own parameters, stages must not overlap, nothing may stay set afterwards.",
            "note": "Trusted base: the reference rule, the vrt shims (run part), the Go compiler."},
    "C18": {"engine": "vrt", "technique": "stateless model checking of the real raterun.Runner under a controlled scheduler with virtual time: all interleavings, select choices and same-instant timer orders up to a deviation bound",
            "text": "The real Runner runs in virtual time against scripted Restart/Stop/cancel sequences; every interleaving of the runner goroutine with the driver, every select choice among ready cases and every order of same-instant timers is executed (deviation bound per scenario in the evidence) and the ordered event log is checked: rate per schedule activation, argument, nothing executing or invoked after Stop returned, no thread or timer left.",
            "note": E1_NOTE},
}
