# Per-property check configuration for bin/check.
E1_ASSUME = [
    "E1: the real f1 packages run after a syntactic rewrite (tools/rewrite) under the vrt cooperative scheduler; shim semantics of sync, sync/atomic, channels, context and time are a trusted base cross-checked by the litmus suite",
    "E1 sees synchronisation steps only: data races on plain memory are outside (advisory free-running -race pass only)",
    "memo pruning assumes data-race freedom and that untracked shared operations (prometheus observe) commute",
]
PROPS = {
    "C01": {
        "parts": [{"harness": "c01", "budget": {"quick": 40, "thorough": 600}, "shards": {"quick": "ncpu", "thorough": "ncpu"}}],
        "rule": "one execution = one complete interleaving (choice sequence) of the scenario; distinct = distinct observed outcome signatures (status, violations, event-log hash)",
        "assumptions": E1_ASSUME,
    },
}

NOT_APPLICABLE = {}

E1_NOTE = ("Trusted base: the vrt shim semantics (sync, atomic, channels, context, virtual time; validated by the litmus suite), the syntactic rewriter, "
           "the Go compiler. Assumes data-race freedom of f1 (plain-memory races are invisible to a cooperative scheduler). Bounds are reported per scenario in the evidence.")
LEVELS = {
    "C01": {"engine": "vrt", "technique": "stateless model checking of the real code: exhaustive enumeration of thread interleavings up to a preemption bound (happens-before memo completes small scenarios without a bound)",
            "text": "Every interleaving (up to the stated deviation bound, unbounded for the small scenarios) of recorder threads, progress snapshots and the final totals is executed on the real progress.Stats / run.Result / metrics code and the final counts are compared with ground truth; this is the level at which a lost update between two atomics is decidable, which no test run can force.",
            "note": E1_NOTE},
}
