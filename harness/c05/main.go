// Harness for C05: a run always terminates, stops triggering on time and
// leaves nothing running. Drives the real run.NewRun(...).Do(ctx) with the
// whole rewritten stack underneath, in virtual time.
package main

import (
	"os"
	"fmt"
	"strings"
	"time"

	"github.com/form3tech-oss/f1/v2/internal/options"
	"github.com/form3tech-oss/f1/v2/internal/verifharness/hlib"
	"github.com/form3tech-oss/f1/v2/internal/verifshim/vctx"
	"github.com/form3tech-oss/f1/v2/internal/verifshim/vrt"
	"github.com/form3tech-oss/f1/v2/internal/verifshim/vtime"
	f1testing "github.com/form3tech-oss/f1/v2/pkg/f1/testing"
)

type cfg struct {
	mode     string        // constant | users | staged | file
	maxDur   time.Duration // --max-duration
	limit    uint64        // --max-iterations
	conc     int
	cancelAt time.Duration // caller cancels the context at this virtual instant (-1: never)
	pre      bool          // the caller's context is already cancelled when Do is called
	body     string        // instant | sleep30 | sleeplong | forever
	setup    string        // ok | fail | panic
	ct       time.Duration // completion timeout
	rate     string        // constant mode rate (default 1/100ms)
}

func (c cfg) name() string {
	if c.rate != "" {
		return fmt.Sprintf("run/%s(%s)/maxdur=%s/limit=%d/c=%d/cancel=%s/body=%s/setup=%s/ct=%s", c.mode, c.rate, c.maxDur, c.limit, c.conc, c.cancelAt, c.body, c.setup, c.ct)
	}
	pre := ""
	if c.pre {
		pre = "/cancelled-before-Do"
	}
	return fmt.Sprintf("run/%s/maxdur=%s/limit=%d/c=%d/cancel=%s/body=%s/setup=%s/ct=%s%s", c.mode, c.maxDur, c.limit, c.conc, c.cancelAt, c.body, c.setup, c.ct, pre)
}

const fileYAML = `scenario: s
limits:
  max-duration: %s
  concurrency: %d
  max-iterations: %d
  ignore-dropped: true
stages:
- duration: 300ms
  mode: constant
  rate: 1/100ms
  jitter: 0
  distribution: none
- duration: 300ms
  mode: users
`

// a constant stage with three users stages still ahead of it
const fileUsersAheadYAML = `scenario: s
limits:
  max-duration: %s
  concurrency: %d
  max-iterations: %d
  ignore-dropped: true
stages:
- duration: 300ms
  mode: constant
  rate: 1/100ms
  jitter: 0
  distribution: none
- duration: 100ms
  mode: users
- duration: 100ms
  mode: users
- duration: 100ms
  mode: users
`

// the same shape with a first stage of one hour - no timer of the plan can expire (not even early) before the
// caller's interrupt, so the first stage cannot have ended by itself - and every stage tagging the environment
// with its number: an iteration that sees another stage's tag proves that a later stage was entered after the
// interrupt (a late iteration of the stage that was triggering sees tag 1)
const fileUsersAheadLongYAML = `scenario: s
limits:
  max-duration: %s
  concurrency: %d
  max-iterations: %d
  ignore-dropped: true
stages:
- duration: 1h
  mode: constant
  rate: 1/100ms
  jitter: 0
  distribution: none
  parameters:
    C05_STAGE: "1"
- duration: 100ms
  mode: users
  parameters:
    C05_STAGE: "2"
- duration: 100ms
  mode: users
  parameters:
    C05_STAGE: "3"
- duration: 100ms
  mode: constant
  rate: 5/10ms
  jitter: 0
  distribution: none
  parameters:
    C05_STAGE: "4"
`

const fileUsersFirstYAML = `scenario: s
limits:
  max-duration: %s
  concurrency: %d
  max-iterations: %d
  ignore-dropped: true
stages:
- duration: 300ms
  mode: users
- duration: 300ms
  mode: constant
  rate: 1/100ms
  jitter: 0
  distribution: none
`

func (c cfg) spec() *hlib.RunSpec {
	rs := &hlib.RunSpec{
		Mode:              c.mode,
		Opts:              options.RunOptions{MaxDuration: c.maxDur, Concurrency: c.conc, MaxIterations: c.limit, IgnoreDropped: true},
		CompletionTimeout: c.ct,
	}
	switch c.mode {
	case "constant":
		rate := c.rate
		if rate == "" {
			rate = "1/100ms"
		}
		rs.Flags = map[string]string{"rate": rate, "distribution": "none"}
	case "staged":
		rs.Flags = map[string]string{"stages": "0s:1,300ms:1", "iterationFrequency": "100ms", "distribution": "none"}
	case "ramp":
		rs.Flags = map[string]string{"start-rate": "1/100ms", "end-rate": "2/100ms", "ramp-duration": "300ms", "distribution": "none"}
	case "gaussian":
		rs.Flags = map[string]string{"volume": "60000", "repeat": "1m", "iteration-frequency": "100ms", "peak": "0s", "standard-deviation": "1h", "distribution": "none"}
	case "file":
		rs.FileYAML = fmt.Sprintf(fileYAML, c.maxDur, c.conc, c.limit)
	case "file-users-ahead":
		rs.Mode = "file"
		rs.FileYAML = fmt.Sprintf(fileUsersAheadYAML, c.maxDur, c.conc, c.limit)
	case "file-users-ahead-long":
		rs.Mode = "file"
		rs.FileYAML = fmt.Sprintf(fileUsersAheadLongYAML, c.maxDur, c.conc, c.limit)
	case "file-users-first":
		rs.Mode = "file"
		rs.FileYAML = fmt.Sprintf(fileUsersFirstYAML, c.maxDur, c.conc, c.limit)
	}
	rs.ScenarioFn = func(t *f1testing.T) f1testing.RunFn {
		vrt.LogQuiet("setup")
		t.Cleanup(func() { vrt.LogQuiet("setup-cleanup") })
		switch c.setup {
		case "fail":
			t.FailNow()
		case "panic":
			panic("setup panics")
		}
		return func(t *f1testing.T) {
			id := t.Iteration
			vrt.LogQuiet("begin " + id)
			if st := os.Getenv("C05_STAGE"); st != "" && st != "1" {
				vrt.LogQuiet("begin-in-stage " + st)
			}
			t.Cleanup(func() { vrt.LogQuiet("cleanup " + id) })
			switch c.body {
			case "sleep30":
				vtime.Sleep(30 * time.Millisecond)
			case "sleeplong":
				vtime.Sleep(150 * time.Millisecond) // longer than the stop guard, shorter than the completion timeout
			case "forever":
				vrt.WaitUntil("body-blocks-for-ever", func() bool { return false })
			case "first-forever": // iteration 1 never finishes, the others take 30 ms
				if id == "1" {
					vrt.WaitUntil("body-blocks-for-ever", func() bool { return false })
				}
				vtime.Sleep(30 * time.Millisecond)
			}
			vrt.LogQuiet("end " + t.Iteration)
		}
	}
	return rs
}

func scenario(c cfg) vrt.Scenario {
	body := func() {
		b, err := c.spec().Build()
		if err != nil {
			panic(err)
		}
		ctx, cancel := vctx.WithCancel(vctx.Background())
		defer cancel()
		if c.pre {
			cancel()
		}
		if c.cancelAt >= 0 {
			vrt.GoNamed("caller-cancel", func() {
				if c.cancelAt > 0 {
					vtime.Sleep(c.cancelAt)
				}
				vrt.LogQuiet(fmt.Sprintf("caller-cancel %d", vrt.Clock()))
				cancel()
			})
		}
		_, err = b.Run.Do(ctx)
		vrt.LogQuiet(fmt.Sprintf("do-returned %d", vrt.Clock()))
		if err != nil {
			vrt.LogQuiet("do-error " + err.Error())
		}
		// observation window after the run has returned
		vtime.Sleep(3 * time.Second)
		vrt.LogQuiet("observed")
	}
	horizon := c.maxDur + c.ct + 25*time.Second
	return vrt.Scenario{Name: c.name(), Body: body, Post: func(o *vrt.Outcome) { oracle(c, o) }, Memo: true, Horizon: horizon, MaxSteps: 60000}
}

func blockedKey(detail string) string {
	// thread names vary with the schedule: keep the blocked operations only
	var ops []string
	seen := map[string]bool{}
	for _, p := range strings.Split(detail, "; ") {
		if i := strings.Index(p, ": "); i >= 0 {
			op := p[i+2:]
			if !seen[op] {
				seen[op] = true
				ops = append(ops, op)
			}
		}
	}
	return strings.Join(ops, "|")
}

func oracle(c cfg, o *vrt.Outcome) {
	switch o.Status {
	case vrt.StDeadlock:
		o.Fail("C05/no-return", "deadlock:"+blockedKey(o.Detail), "the run deadlocked: "+o.Detail)
		return
	case vrt.StHorizon:
		o.Fail("C05/no-return", "blocked:"+blockedKey(o.Detail), "Do had not returned long after every finite deadline had expired: "+o.Detail)
		return
	case vrt.StCrash:
		o.Fail("C05/crash", "panic", o.Crash)
		return
	}
	open := map[string]bool{}
	returned := false
	timeoutFired := false
	stopSeen := false
	beginsAfterStop, beginsAfterCancel := 0, 0
	var retClock int64
	nbegin := 0
	var stopClock int64 = -1
	tornDown := false
	var lastEnd int64
	cleaned := map[string]bool{}
	for li, ev := range o.Log {
		f := strings.Fields(ev)
		switch {
		case f[0] == "begin":
			nbegin++
			if c.setup != "ok" {
				o.Fail("C05/iteration-after-failed-setup", "begin", "an iteration started although setup failed")
			}
			if returned && !timeoutFired {
				// (when the completion timeout expired the abandoned workers are on their own)
				o.Fail("C05/iteration-after-return", "begin", "an iteration started after Do returned without the completion timeout expiring: "+ev)
			}
			if stopSeen {
				beginsAfterStop++
			}
			if c.cancelAt >= 0 && o.LogClock[li] > int64(c.cancelAt) {
				beginsAfterCancel++
			}
			open[f[1]] = true
		case f[0] == "begin-in-stage":
			if c.mode == "file-users-ahead-long" && c.cancelAt >= 0 {
				o.Fail("C05/starts-after-stop", "later-stage-entered-after-the-interrupt", "the caller interrupted the run during its first stage (one hour long); an iteration then started inside stage "+f[1]+": the plan went on to later stages after the interrupt")
			}
		case f[0] == "end":
			lastEnd = o.LogClock[li]
			delete(open, f[1])
			if tornDown && !timeoutFired {
				o.Fail("C05/teardown-not-last", "body-end-after-setup-cleanup", "an iteration finished after the setup cleanups had run, without the completion timeout expiring: "+ev)
			}
		case f[0] == "cleanup":
			cleaned[f[1]] = true
			if tornDown && !timeoutFired {
				o.Fail("C05/teardown-not-last", "cleanup-after-setup-cleanup", "an iteration's cleanup ran after the setup cleanups, without the completion timeout expiring: "+ev)
			}
		case ev == "setup-cleanup":
			tornDown = true
			if returned {
				o.Fail("C05/teardown-not-last", "after-return", "setup cleanups ran after Do returned")
			}
		case ev == "display progress":
			if returned {
				o.Fail("C05/progress-after-return", "display", "progress was reported after Do returned")
			}
		case strings.HasPrefix(ev, "display Active tests not completed"):
			timeoutFired = true
			// the wait may only be given up once the completion timeout has really
			// elapsed since triggering stopped (holds under deviations too: firing
			// a timer early still moves the clock to its deadline)
			if stopClock >= 0 && o.LogClock[li]-stopClock < int64(c.ct) {
				o.Fail("C05/gave-up-early", "before-completion-timeout", fmt.Sprintf("the run stopped waiting for in-flight iterations %s after it stopped triggering; the completion timeout is %s", time.Duration(o.LogClock[li]-stopClock), c.ct))
			}
		case ev == "display Max Duration Elapsed - waiting for active tests to complete", ev == "display Interrupted - waiting for active tests to complete":
			stopSeen = true
			if stopClock < 0 {
				stopClock = o.LogClock[li]
			}
		case f[0] == "do-returned":
			returned = true
			fmt.Sscan(f[1], &retClock)
			if !timeoutFired && len(open) > 0 {
				o.Fail("C05/unfinished-iteration", "at-return", fmt.Sprintf("Do returned without the completion timeout expiring while %d started iterations had not finished", len(open)))
			}
		}
	}
	// Only on the default schedule: under deviations the goroutine that turns the
	// cancellation into the pool's stop flag may itself be the slow one, and the
	// statement does not bound scheduling latency.
	if returned && !tornDown {
		o.Fail("C05/teardown-not-last", "never", "Do returned but the setup cleanups never ran")
	}
	// a triggering window that is empty from the outset (max-duration within the 10 ms guard, or a
	// context that was cancelled before Do): a rate-driven trigger requests nothing at all, in any schedule
	if (c.pre || c.maxDur <= 10*time.Millisecond) && c.mode != "users" && !strings.HasPrefix(c.mode, "file") && nbegin > 0 {
		o.Fail("C05/starts-after-stop", "empty-window", fmt.Sprintf("%d iterations started although the triggering window was over before it began", nbegin))
	}
	if o.Cost == 0 && beginsAfterCancel > c.conc {
		o.Fail("C05/starts-after-stop", "after-the-interrupt", fmt.Sprintf("%d iterations started later than the instant of the caller's cancel (concurrency %d)", beginsAfterCancel, c.conc))
	}
	if o.Cost == 0 && beginsAfterStop > c.conc {
		o.Fail("C05/starts-after-stop", "more-than-workers", fmt.Sprintf("%d iterations started after the run announced it had stopped triggering (concurrency %d)", beginsAfterStop, c.conc))
	}
	if c.body == "forever" && nbegin > 0 && !timeoutFired && c.limit == 0 {
		o.Fail("C05/timeout-not-applied", "forever", "bodies never finish but the completion-timeout path was not taken")
	}
	// After the completion timeout expired, iterations still in flight (and whoever waits
	// for them) are on their own. But if no iteration is in flight at the end - no thread
	// sits in a body's sleep or in a body that blocks for ever - then whatever is still
	// alive was not waiting for an iteration: a worker that missed its wake-up, say.
	inFlight := false
	for _, l := range o.Leaks {
		if strings.Contains(l, "Sleep") || strings.Contains(l, "body-blocks-for-ever") {
			inFlight = true
		}
	}
	if !timeoutFired || !inFlight {
		for _, l := range o.Leaks {
			what := "thread still alive after the run returned and 3 s passed: "
			if timeoutFired {
				what = "the run sat out the completion timeout with no iteration in flight, and a thread is left: "
			}
			o.Fail("C05/goroutine-left", strings.TrimSpace(strings.SplitN(l, ":", 2)[1]), what+l)
			break
		}
	}
	if o.Cost == 0 {
		// timing on the default schedule (no slow threads): stop instant + completion timeout + guards
		stop := c.maxDur - 10*time.Millisecond
		switch c.mode {
		case "staged":
			if d := 300*time.Millisecond - 10*time.Millisecond; d < stop {
				stop = d
			}
		case "file", "file-users-first", "file-users-ahead", "file-users-ahead-long":
			if d := 600*time.Millisecond - 10*time.Millisecond; d < stop {
				stop = d
			}
		}
		if c.cancelAt >= 0 && c.cancelAt < stop {
			stop = c.cancelAt
		}
		limit := stop + c.ct + 250*time.Millisecond
		// the limit ended the run: nothing is left to wait for once the last allowed iteration has finished
		if c.setup == "ok" && c.limit > 0 && uint64(nbegin) == c.limit && len(open) == 0 && returned && retClock-lastEnd > int64(250*time.Millisecond) {
			o.Fail("C05/late-return", "after-limit", fmt.Sprintf("the last allowed iteration finished at %s, Do returned at %s", time.Duration(lastEnd), time.Duration(retClock)))
		}
		if c.setup == "ok" && time.Duration(retClock) > limit {
			o.Fail("C05/late-return", "cost0", fmt.Sprintf("Do returned at %s, later than stop instant %s + completion timeout %s + guards", time.Duration(retClock), stop, c.ct))
		}
	}
	o.Sig = fmt.Sprintf("begins=%d timeout=%v ret=%s", nbegin, timeoutFired, time.Duration(retClock).Round(10*time.Millisecond))
}

func ms(n int) time.Duration { return time.Duration(n) * time.Millisecond }

func scenariosFor(tier string) []vrt.Scenario {
	var out []vrt.Scenario
	add := func(b int, c cfg) {
		if c.ct == 0 {
			c.ct = ms(200)
		}
		if c.setup == "" {
			c.setup = "ok"
		}
		if c.conc == 0 {
			c.conc = 1
		}
		s := scenario(c)
		s.Bound = b
		if c.cancelAt >= 0 || c.maxDur == ms(1010) {
			s.Weight = 5 // the heavy ones get a larger share of the time budget
		}
		if c.cancelAt >= 0 || c.conc > 1 || strings.HasPrefix(c.mode, "file") {
			// a caller cancel wakes half a dozen threads at once and the free
			// switches among them alone do not complete: delay-bounded policy,
			// one more unit of budget
			s.Delay = true
			s.Bound = b + 1
			s.Name += "/policy=delay"
		}
		out = append(out, s)
	}
	never := time.Duration(-1)
	quick := tier == "quick"
	b := 1
	if !quick {
		b = 2
	}
	// core: constant/users x {duration, cancel, limit}
	add(b, cfg{mode: "constant", maxDur: ms(1010), cancelAt: never, body: "instant"}) // deadline coincides with the 1 s progress tick
	add(b, cfg{mode: "constant", maxDur: ms(500), cancelAt: never, body: "sleep30"})
	add(b, cfg{mode: "users", maxDur: ms(500), cancelAt: never, body: "sleep30"})
	add(b, cfg{mode: "constant", maxDur: ms(2000), cancelAt: ms(150), body: "sleep30"})
	add(b, cfg{mode: "users", maxDur: ms(2000), cancelAt: ms(150), body: "sleep30"})
	add(b, cfg{mode: "constant", maxDur: ms(2000), limit: 2, cancelAt: never, body: "instant"})
	add(b, cfg{mode: "users", maxDur: ms(2000), limit: 2, cancelAt: never, body: "sleep30"})
	add(b, cfg{mode: "constant", maxDur: ms(500), cancelAt: never, body: "forever"})
	add(b, cfg{mode: "users", maxDur: ms(500), cancelAt: never, body: "forever"})
	add(b, cfg{mode: "constant", maxDur: ms(2000), cancelAt: ms(1000), body: "instant", rate: "1/500ms"}) // cancel coincides with the progress tick
	// an iteration is in flight when the caller cancels / when the last stage of a plan whose first stage is a users stage ends
	add(b, cfg{mode: "constant", maxDur: ms(2000), cancelAt: ms(150), body: "sleeplong"})
	add(b-1, cfg{mode: "file-users-first", maxDur: ms(2000), cancelAt: never, body: "sleeplong", conc: 2})
	add(b-1, cfg{mode: "users", maxDur: ms(2000), cancelAt: ms(0), body: "sleep30", conc: 2}) // the interrupt lands while the pool is starting up
	for _, c := range []cfg{{mode: "constant", maxDur: ms(300), cancelAt: never, body: "sleep30", conc: 2, ct: ms(200), setup: "ok"}, {mode: "users", maxDur: ms(300), cancelAt: ms(150), body: "sleep30", conc: 2, ct: ms(200), setup: "ok"}} {
		s := scenario(c).WithPlainPoints(1)
		s.Delay = true
		s.Name += "/policy=delay"
		out = append(out, s)
	}
	// config-file mode, the limit reached at the very start of the first stage
	add(b-1, cfg{mode: "file", maxDur: ms(2000), limit: 1, cancelAt: never, body: "instant"})
	// config-file mode ending by the plan's own end (600 ms, well before max-duration) with iterations that never finish:
	// the completion timeout starts then, not at max-duration
	add(b-1, cfg{mode: "file", maxDur: ms(4000), cancelAt: never, body: "forever"})
	add(b-1, cfg{mode: "file-users-first", maxDur: ms(4000), cancelAt: never, body: "first-forever", conc: 2})
	add(b-1, cfg{mode: "file-users-first", maxDur: ms(2000), limit: 2, cancelAt: never, body: "sleep30", conc: 2})
	// the limit is reached while iterations that never finish are in flight: the completion timeout still bounds the wait
	add(b-1, cfg{mode: "constant", maxDur: ms(2000), limit: 3, cancelAt: never, body: "first-forever", conc: 2})
	add(b-1, cfg{mode: "users", maxDur: ms(2000), limit: 3, cancelAt: never, body: "first-forever", conc: 2})
	// config-file mode interrupted in its first stage: the stages still ahead (users stages, whose workers would
	// each start an iteration before noticing) are not entered
	add(b, cfg{mode: "file-users-ahead", maxDur: ms(2000), cancelAt: ms(150), body: "sleep30"})
	add(b, cfg{mode: "file-users-ahead-long", maxDur: 3 * time.Hour, cancelAt: ms(150), body: "sleep30", conc: 2})
	// the caller interrupts while a stage is being entered (at a stage boundary): the stage's
	// pool is either not started or waited for - nothing of it starts after the run has returned
	add(b, cfg{mode: "file", maxDur: ms(2000), cancelAt: ms(300), body: "sleep30"})
	add(b, cfg{mode: "file-users-first", maxDur: ms(2000), cancelAt: ms(300), body: "sleep30", conc: 2})
	// the triggering window is over before it begins
	add(b, cfg{mode: "constant", maxDur: ms(10), cancelAt: never, body: "sleep30", conc: 2})
	add(b, cfg{mode: "constant", maxDur: ms(5), cancelAt: never, body: "instant"})
	add(b, cfg{mode: "constant", maxDur: ms(500), cancelAt: never, body: "sleep30", pre: true})
	add(b, cfg{mode: "users", maxDur: ms(500), cancelAt: never, body: "sleep30", pre: true})
	add(b, cfg{mode: "users", maxDur: ms(10), cancelAt: never, body: "sleep30"})
	if quick {
		add(0, cfg{mode: "ramp", maxDur: ms(500), cancelAt: never, body: "sleep30"})
		add(0, cfg{mode: "gaussian", maxDur: ms(500), cancelAt: never, body: "sleep30"})
		add(0, cfg{mode: "staged", maxDur: ms(2000), cancelAt: never, body: "sleep30"})
		add(0, cfg{mode: "file", maxDur: ms(2000), cancelAt: never, body: "sleep30"})
		add(0, cfg{mode: "constant", maxDur: ms(500), cancelAt: never, body: "instant", setup: "fail"})
		add(0, cfg{mode: "users", maxDur: ms(500), cancelAt: never, body: "sleep30", setup: "panic"})
		return out
	}
	// full product at b=1
	for _, mode := range []string{"constant", "users", "staged", "file", "file-users-first", "ramp", "gaussian"} {
		for _, body := range []string{"instant", "sleep30", "sleeplong", "forever"} {
			if body == "instant" && (mode == "users" || strings.HasPrefix(mode, "file")) {
				continue // users workers with instant bodies never let virtual time pass
			}
			for _, conc := range []int{1, 2} {
				add(1, cfg{mode: mode, maxDur: ms(500), cancelAt: never, body: body, conc: conc})
				add(1, cfg{mode: mode, maxDur: ms(1010), cancelAt: never, body: body, conc: conc})
				for _, ca := range []int{0, 150, 200, 490, 700} {
					add(1, cfg{mode: mode, maxDur: ms(500), cancelAt: ms(ca), body: body, conc: conc})
				}
				add(1, cfg{mode: mode, maxDur: ms(2000), limit: 2, cancelAt: never, body: body, conc: conc})
			}
		}
		add(1, cfg{mode: mode, maxDur: ms(500), cancelAt: never, body: "sleep30", setup: "fail"})
		add(1, cfg{mode: mode, maxDur: ms(500), cancelAt: ms(0), body: "sleep30", setup: "panic"})
	}
	return out
}

func main() { vrt.Main("C05", scenariosFor) }
