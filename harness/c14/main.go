// Harness for C14 (E2): every user input is either rejected with an error
// before setup runs or yields a runnable trigger; accepted rate strings mean
// what they spell. Strings are enumerated exhaustively up to a length bound;
// accepted inputs are actually driven for a few virtual ticks (default
// schedule) through the real CLI command.
package main

import (
	"fmt"
	"math"
	"os"
	"path/filepath"
	"sort"
	"strconv"
	"strings"
	"time"

	"github.com/form3tech-oss/f1/v2/internal/trigger/file"
	"github.com/form3tech-oss/f1/v2/internal/trigger/ramp"
	"github.com/form3tech-oss/f1/v2/internal/trigger/rate"
	"github.com/form3tech-oss/f1/v2/internal/trigger/staged"
	"github.com/form3tech-oss/f1/v2/internal/verifharness/hlib"
	"github.com/form3tech-oss/f1/v2/internal/verifshim/vrt"
	"github.com/form3tech-oss/f1/v2/internal/verifshim/vtime"
	f1testing "github.com/form3tech-oss/f1/v2/pkg/f1/testing"
)

func allStrings(alpha []string, maxLen int, f func(s string) bool) {
	var rec func(prefix string, n int) bool
	rec = func(prefix string, n int) bool {
		if !f(prefix) {
			return false
		}
		if n == maxLen {
			return true
		}
		for _, a := range alpha {
			if !rec(prefix+a, n+1) {
				return false
			}
		}
		return true
	}
	rec("", 0)
}

func digits(s string) bool {
	if s == "" {
		return false
	}
	for _, c := range s {
		if c < '0' || c > '9' {
			return false
		}
	}
	return true
}

var unitNames = map[string]time.Duration{"ns": time.Nanosecond, "us": time.Microsecond, "µs": time.Microsecond, "ms": time.Millisecond, "s": time.Second, "m": time.Minute, "h": time.Hour}

// refRate is the documented grammar: N/<duration> with a Go duration, a bare
// unit means one of it, a bare N means per second. defined=false: the grammar
// gives the string no meaning.
func refRate(s string) (defined, accept bool, n int, unit time.Duration) {
	i := strings.Index(s, "/")
	if i < 0 {
		if digits(s) {
			n, _ = strconv.Atoi(s)
			return true, true, n, time.Second
		}
		return false, false, 0, 0
	}
	left, right := s[:i], s[i+1:]
	if !digits(left) {
		return false, false, 0, 0
	}
	n, _ = strconv.Atoi(left)
	if u, ok := unitNames[right]; ok {
		return true, true, n, u
	}
	d, err := time.ParseDuration(right)
	if err != nil {
		return false, false, 0, 0
	}
	if d <= 0 {
		return true, false, 0, 0 // a non-positive interval cannot run: must be rejected
	}
	return true, true, n, d
}

var (
	rateAlpha     = []string{"0", "1", "5", "/", "s", "m", "h", ".", "-", "+", " "}
	rateAlphaWide = []string{"0", "1", "5", "9", "/", "s", "m", "h", "n", "u", "µ", ".", "-", "+", " ", "x", "e", "E", "_", "d"}
)

func rateStrings(maxLen int) hlib.Suite { return rateStringsOver("", rateAlpha, maxLen) }

// rateStringsWide: shorter strings over more symbols (all Go duration units, a
// fourth digit, and the characters other number syntaxes use: hex, exponent,
// digit separators).
func rateStringsWide(maxLen int) hlib.Suite {
	return rateStringsOver("-20-symbols", rateAlphaWide, maxLen)
}

func rateStringsOver(tag string, alpha []string, maxLen int) hlib.Suite {
	return hlib.Suite{Name: fmt.Sprintf("rate-strings%s/len<=%d", tag, maxLen), Weight: 3, Run: func(r *hlib.Rec) {
		quirks := 0
		allStrings(alpha, maxLen, func(s string) bool {
			if r.Expired() {
				return false
			}
			if !r.Mine() {
				return true // another shard evaluates this string; the recursion still visits its extensions
			}
			r.Eval()
			var n int
			var unit time.Duration
			var err error
			panicked, pv := hlib.Catch(func() { n, unit, err = rate.ParseRate(s) })
			input := fmt.Sprintf("%q", s)
			r.SampleCase(input)
			if panicked {
				r.Fail("C14/rate-string-panics", shape(s), fmt.Sprintf("ParseRate(%q) panics: %v", s, pv), input)
				return true
			}
			defined, accept, wn, wu := refRate(s)
			if err == nil {
				r.Distinct(fmt.Sprintf("accepted %d/%s", n, unit))
				if unit <= 0 {
					r.Fail("C14/rate-string-interval", "non-positive:"+shape(s), fmt.Sprintf("ParseRate(%q) accepts with tick interval %s: the trigger cannot run", s, unit), input)
				}
				if n < 0 {
					r.Fail("C14/rate-string-negative", shape(s), fmt.Sprintf("ParseRate(%q) accepts the negative rate %d", s, n), input)
				}
				if defined && accept && (n != wn || unit != wu) {
					r.Fail("C14/rate-string-meaning", shape(s), fmt.Sprintf("ParseRate(%q) = %d per %s, it spells %d per %s", s, n, unit, wn, wu), input)
				}
				if defined && !accept && unit > 0 {
					r.Fail("C14/rate-string-meaning", "accepted-nonpositive:"+shape(s), fmt.Sprintf("ParseRate(%q) = %d per %s but the string spells a non-positive interval", s, n, unit), input)
				}
				if !defined {
					quirks++
				}
			} else {
				r.Distinct("rejected")
			}
			return true
		})
		r.Note = fmt.Sprintf("%d accepted strings have no meaning in the documented grammar (e.g. \"5/h1m\", \"+5/s\"); counted, not violations", quirks)
		r.Sample([]string{"", "5", "5/s", "5/1s", "5/", "5/0s", "5/.5s", "1/+1s"})
	}}
}

// shape abstracts a string to its character classes so that findings are keyed
// by the kind of input, not by each of thousands of strings.
func shape(s string) string {
	var b strings.Builder
	last := byte(0)
	for i := 0; i < len(s); i++ {
		c := s[i]
		k := c
		switch {
		case c >= '0' && c <= '9':
			k = 'N'
		case c == 's' || c == 'm' || c == 'h':
			k = 'u'
		}
		if k == 'N' && last == 'N' {
			continue
		}
		b.WriteByte(k)
		last = k
	}
	return b.String()
}

func stagesStrings(maxLen int) hlib.Suite {
	alpha := []string{"1", "0", "s", "m", ":", ",", " ", "-", "x"}
	return hlib.Suite{Name: fmt.Sprintf("stages-strings/len<=%d", maxLen), Weight: 3, Run: func(r *hlib.Rec) {
		now := time.Date(2024, 1, 1, 0, 0, 0, 0, time.UTC)
		allStrings(alpha, maxLen, func(s string) bool {
			if r.Expired() {
				return false
			}
			if !r.Mine() {
				return true
			}
			r.Eval()
			input := fmt.Sprintf("%q", s)
			r.SampleCase(input)
			panicked, pv := hlib.Catch(func() {
				st, err := staged.ParseStages(s)
				if err != nil {
					r.Distinct("rejected")
					return
				}
				rates, err := staged.CalculateStagedRate(0, time.Second, s, "none", nil)
				if err != nil {
					r.Fail("C14/stages-string-inconsistent", shape(s), "ParseStages accepts but CalculateStagedRate rejects: "+err.Error(), input)
					return
				}
				if rates.IterationDuration <= 0 {
					r.Fail("C14/stages-string-interval", shape(s), fmt.Sprintf("tick interval %s", rates.IterationDuration), input)
				}
				for _, off := range []time.Duration{0, time.Second, time.Minute, 3 * time.Hour} {
					rates.Rate(now.Add(off))
				}
				r.Distinct(fmt.Sprintf("accepted %d stages", len(st)))
			})
			if panicked {
				r.Fail("C14/stages-string-panics", shape(s), fmt.Sprintf("%q: %v", s, pv), input)
			}
			return true
		})
		r.Sample([]string{"", "1s:1", "1s:1,1m:0", "1s", ":", "1s:1,"})
	}}
}

type flagCase struct {
	mode  string
	flags []string
}

func (c flagCase) String() string { return c.mode + " " + strings.Join(c.flags, " ") }

// cliSuite: flag combinations through the real cobra command; accepted ones run
// for a few ticks in virtual time.
const startTimeLayout = "2006-01-02T15:04:05+07:00"

func cliSuite(full bool) hlib.Suite {
	return hlib.Suite{Name: fmt.Sprintf("cli-flags/full=%v", full), Weight: 4, Run: func(r *hlib.Rec) {
		var cases []flagCase
		prod := func(mode string, opts ...[]string) {
			var rec func(i int, cur []string)
			rec = func(i int, cur []string) {
				if i == len(opts) {
					cases = append(cases, flagCase{mode, append([]string(nil), cur...)})
					return
				}
				for _, o := range opts[i] {
					next := cur
					if o != "" {
						next = append(append([]string(nil), cur...), strings.Fields(o)...)
					}
					rec(i+1, next)
				}
			}
			rec(0, nil)
		}
		conc := []string{"", "--concurrency 1", "--concurrency 0", "--concurrency -1"}
		dur := []string{"--max-duration 300ms", "--max-duration 0s", "--max-duration -1s", "--max-duration x"}
		dist := []string{"", "--distribution none", "--distribution random", "--distribution bogus"}
		jit := []string{"", "--jitter 50", "--jitter -1", "--jitter 100", "--jitter x"}
		distAll := dist // negative rates only hurt the random distribution: always included where rates can be negative
		if !full {
			conc, jit = conc[:3], jit[:2]
			dist = []string{"", "--distribution none", "--distribution bogus"}
		}
		prod("constant", []string{"", "--rate 1/100ms", "--rate 0/s", "--rate 5/0s", "--rate -1/s", "--rate x", "--rate 5/", "--rate 5/.5s", "--rate 2/0.5s"}, dist, jit, conc, dur)
		prod("staged", []string{"", "--stages 0s:1,1s:1", "--stages 1s:0", "--stages x", "--stages 1s", "--stages -1s:1", "--stages 1s:-1", "--stages ,", "--stages 0s:-3,1s:-3"},
			[]string{"", "--iterationFrequency 100ms", "--iterationFrequency 0s", "--iterationFrequency -1s", "--iterationFrequency 10ms", "--iterationFrequency 200ms"}, distAll, conc[:2], dur[:2])
		// --startTime (layout 2006-01-02T15:04:05+07:00, the zone suffix is literal): in the past, a moment ahead, an hour ahead,
		// malformed; with the default stages (which begin with a zero-length stage) and with others
		past, soon, later := vtime.Epoch.Add(-time.Hour).Format(startTimeLayout), vtime.Epoch.Add(time.Second).Format(startTimeLayout), vtime.Epoch.Add(time.Hour).Format(startTimeLayout)
		prod("staged", []string{"", "--stages 0s:1,1s:1", "--stages 0s:5,0s:7,1s:1", "--stages 1s:3", "--stages 0s:-3,1s:-3"},
			[]string{"--startTime " + past, "--startTime " + soon, "--startTime " + later, "--startTime yesterday", "--startTime 2024-01-01T00:00:00Z"},
			[]string{"", "--iterationFrequency 100ms"}, []string{"", "--distribution none"}, dur[:1])
		prod("ramp", []string{"", "--start-rate 0/s --end-rate 2/s", "--start-rate 1/100ms --end-rate 3/100ms", "--start-rate 1/s --end-rate 2/m", "--start-rate x", "--start-rate 1/0s --end-rate 2/0s", "--end-rate 5/"},
			[]string{"", "--ramp-duration 1s", "--ramp-duration 0s", "--ramp-duration -1s", "--ramp-duration 50ms"}, dist, conc[:2], dur[:2])
		prod("gaussian", []string{"", "--volume 100", "--volume 0", "--volume -5"},
			[]string{"--repeat 1m --iteration-frequency 1s --peak 30s --standard-deviation 10s", "--repeat 1m --iteration-frequency 200ms --peak 0s --standard-deviation 1h", "--repeat 1m --iteration-frequency 0s --peak 30s --standard-deviation 10s",
				"--repeat 0s --iteration-frequency 1s --peak 0s --standard-deviation 10s", "--repeat 1m --iteration-frequency 1s --peak 30s --standard-deviation 0s",
				"--repeat 1m --iteration-frequency -1s --peak 30s --standard-deviation 10s", "--repeat 1m --iteration-frequency 2m --peak 30s --standard-deviation 10s"},
			[]string{"", "--weights 1,2", "--weights x", "--weights 0,0", "--peak-rate 5/s", "--peak-rate 5/", "--peak-rate 5/0s"}, distAll[:3], dur[:1])
		prod("users", conc, dur)
		sort.SliceStable(cases, func(i, j int) bool { return len(cases[i].flags) < len(cases[j].flags) })
		for _, c := range cases {
			if !r.Mine() {
				continue
			}
			if r.Expired() {
				return
			}
			r.Eval()
			args := append([]string{c.mode, "s", "-v"}, c.flags...)
			input := "f1 run " + strings.Join(args, " ")
			r.SampleCase(input)
			res := hlib.RunCLI(args, 40*time.Second, func(t *f1testing.T) {
				if c.mode == "users" {
					vtime.Sleep(10 * time.Millisecond)
				}
			})
			key := c.mode + ":" + flagShape(c.flags)
			switch res.Status {
			case vrt.StCrash:
				r.Fail("C14/flags-crash", c.mode+":"+panicKind(res.Crash), fmt.Sprintf("accepted, then the run crashes: %s", firstLine(res.Crash)), input)
			case vrt.StDeadlock, vrt.StHorizon:
				r.Fail("C14/flags-hang", key, "accepted, then the run does not finish: "+res.Detail, input)
			case vrt.StStepCap:
				r.Fail("C14/flags-hang", key, "accepted, then the run spins without letting time pass", input)
			default:
				if res.Err != nil && res.SetupCalls > 0 && !strings.Contains(res.Err.Error(), "load test failed") {
					r.Fail("C14/flags-late-rejection", key, "setup ran although the input was rejected: "+res.Err.Error(), input)
				}
			}
			r.Distinct(fmt.Sprintf("%s err=%v setup=%d it=%v st=%s", c.mode, res.Err != nil, res.SetupCalls, res.Iterations > 0, res.Status))
			if len(c.flags) <= 2 {
				r.Sample(map[string]any{"args": strings.Join(args, " "), "error": fmt.Sprint(res.Err), "iterations": res.Iterations})
			}
		}
	}}
}

// panicKind reduces a crash message to its kind, the key of crash findings.
func panicKind(crash string) string {
	l := firstLine(crash)
	if i := strings.Index(l, ": "); i >= 0 {
		l = l[i+2:]
	}
	l = strings.TrimPrefix(l, "runtime error: ")
	if i := strings.Index(l, " ["); i >= 0 {
		l = l[:i]
	}
	return strings.ReplaceAll(l, " ", "-")
}

func firstLine(s string) string {
	if i := strings.Index(s, "\n"); i >= 0 {
		return s[:i]
	}
	return s
}

// flagShape keeps the flags whose value is not a plain valid one, as the key of a finding.
func flagShape(flags []string) string {
	var out []string
	for i := 0; i+1 < len(flags); i += 2 {
		v := flags[i+1]
		if v == "0s" || v == "0" || strings.HasPrefix(v, "-") || strings.HasSuffix(v, "/") || strings.Contains(v, "/0") || v == "x" || v == "1ns" || v == "0,0" || v == "2m" || v == "," || v == "bogus" || v == "50ms" {
			out = append(out, flags[i]+"="+v)
		}
	}
	if len(out) == 0 {
		return "valid-looking"
	}
	return strings.Join(out, ",")
}

const validYAML = `scenario: s
limits:
  max-duration: 1s
  concurrency: 2
  max-iterations: 0
  ignore-dropped: true
stages:
- duration: 300ms
  mode: constant
  rate: 1/100ms
  jitter: 0
  distribution: none
`

type field struct {
	name, valid string
	bad         []string
}

var modeFields = map[string][]field{
	"constant": {{"rate", "1/100ms", []string{"0/s", "5/0s", "x"}}, {"distribution", "none", []string{"bogus"}}, {"jitter", "0", []string{"-1"}}},
	"ramp":     {{"start-rate", "0/100ms", []string{"x"}}, {"end-rate", "2/100ms", []string{"2/s"}}, {"distribution", "none", nil}, {"jitter", "0", nil}},
	"staged":   {{"stages", "0s:1,200ms:2", []string{"x"}}, {"iteration-frequency", "100ms", []string{"0s", "-1s"}}, {"distribution", "none", nil}, {"jitter", "0", nil}},
	"gaussian": {{"volume", "100", []string{"0", "-1"}}, {"repeat", "1m", []string{"0s"}}, {"iteration-frequency", "1s", []string{"0s"}}, {"peak", "30s", nil}, {"weights", `""`, []string{`"x"`}}, {"standard-deviation", "10s", []string{"0s"}}, {"distribution", "none", nil}, {"jitter", "0", nil}},
	"users":    {{"concurrency", "1", []string{"0", "-1"}}},
}

// yamlSuite: well-formed configs with every field of the stage's mode present
// in the stage / only in default / nowhere, numeric fields valid / zero /
// negative, limits present / absent / non-positive.
func yamlSuite(full bool) hlib.Suite {
	return hlib.Suite{Name: fmt.Sprintf("yaml-structured/full=%v", full), Weight: 4, Run: func(r *hlib.Rec) {
		dir, _ := os.MkdirTemp("", "c14yaml")
		defer os.RemoveAll(dir)
		modes := []string{"constant", "users", "staged", "ramp", "gaussian"}
		for _, mode := range modes {
			fs := modeFields[mode]
			n := len(fs)
			total := 1
			for i := 0; i < n; i++ {
				total *= 3
			}
			for code := 0; code < total; code++ {
				// per field: 0 in stage, 1 in default only, 2 nowhere
				limitVariants := []string{"ok"}
				if code == 0 {
					limitVariants = []string{"ok", "concurrency=0", "concurrency=-1", "max-duration=0s", "no-concurrency", "no-max-duration", "no-max-iterations", "no-ignore-dropped", "no-scenario", "duration=0s", "duration=-1s", "no-duration", "no-mode", "mode=bogus"}
				}
				for _, lv := range limitVariants {
					badVariants := []struct {
						fi  int
						val string
					}{{-1, ""}}
					// a bad value is tried with everything in the stage (code 0) and with everything in the default section (all digits 1)
					allDefault := total - 1
					allDefault = 0
					for i, pw := 0, 1; i < n; i, pw = i+1, pw*3 {
						allDefault += pw
					}
					if (code == 0 || code == allDefault) && lv == "ok" {
						for fi, f := range fs {
							for _, b := range f.bad {
								badVariants = append(badVariants, struct {
									fi  int
									val string
								}{fi, b})
							}
						}
					}
					for _, bv := range badVariants {
						if !r.Mine() {
							continue
						}
						if r.Expired() {
							return
						}
						if !full && code%5 != 0 && bv.fi < 0 && lv == "ok" {
							continue
						}
						var stage, def []string
						c := code
						var where []string
						for fi, f := range fs {
							v := f.valid
							if fi == bv.fi {
								v = bv.val
							}
							switch c % 3 {
							case 0:
								stage = append(stage, fmt.Sprintf("  %s: %s", f.name, v))
								where = append(where, "stage")
							case 1:
								def = append(def, fmt.Sprintf("  %s: %s", f.name, v))
								where = append(where, "default")
							default:
								where = append(where, "absent")
							}
							c /= 3
						}
						doc := buildYAML(mode, stage, def, lv)
						input := fmt.Sprintf("mode=%s fields=%v limits=%s bad=%v\n%s", mode, where, lv, bv, doc)
						r.SampleCase(input)
						key := fmt.Sprintf("%s/%s/%s", mode, absentKey(fs, where, bv.fi, bv.val), lv)
						r.Eval()
						checkYAML(r, dir, doc, input, key)
					}
				}
			}
		}
		r.Sample(map[string]any{"modes": modes, "per_field": "stage | default only | absent", "numeric": "valid | 0 | negative", "limits": "present | absent | non-positive"})
	}}
}

func absentKey(fs []field, where []string, bfi int, bval string) string {
	var p []string
	for i, w := range where {
		if w == "absent" {
			p = append(p, "no-"+fs[i].name)
		}
	}
	if bfi >= 0 {
		p = append(p, fs[bfi].name+"="+bval)
	}
	if len(p) == 0 {
		return "all-present"
	}
	return strings.Join(p, ",")
}

func buildYAML(mode string, stage, def []string, lv string) string {
	var b strings.Builder
	if lv != "no-scenario" {
		b.WriteString("scenario: s\n")
	}
	b.WriteString("limits:\n")
	put := func(k, v string) {
		if lv == "no-"+k {
			return
		}
		if strings.HasPrefix(lv, k+"=") {
			v = strings.TrimPrefix(lv, k+"=")
		}
		fmt.Fprintf(&b, "  %s: %s\n", k, v)
	}
	put("max-duration", "500ms")
	put("concurrency", "2")
	put("max-iterations", "0")
	put("ignore-dropped", "true")
	if len(def) > 0 {
		b.WriteString("default:\n")
		for _, l := range def {
			b.WriteString(l + "\n")
		}
	}
	b.WriteString("stages:\n")
	first := true
	line := func(s string) {
		if first {
			b.WriteString("- " + strings.TrimPrefix(s, "  ") + "\n")
			first = false
		} else {
			b.WriteString(s + "\n")
		}
	}
	switch {
	case lv == "no-duration":
	case strings.HasPrefix(lv, "duration="):
		line("  duration: " + strings.TrimPrefix(lv, "duration="))
	default:
		line("  duration: 300ms")
	}
	switch {
	case lv == "no-mode":
	case lv == "mode=bogus":
		line("  mode: bogus")
	default:
		line("  mode: " + mode)
	}
	for _, l := range stage {
		line(l)
	}
	if first {
		b.WriteString("- {}\n")
	}
	return b.String()
}

// checkYAML: parse (no panic), and if accepted run it through the CLI for its duration.
func checkYAML(r *hlib.Rec, dir, doc, input, key string) {
	var plan *file.RunnableStages
	var err error
	now := time.Date(2024, 1, 1, 0, 0, 0, 0, time.UTC)
	if p, pv := hlib.Catch(func() { plan, err = file.ParseConfigFile([]byte(doc), now) }); p {
		r.Fail("C14/yaml-parse-panics", key, fmt.Sprintf("ParseConfigFile panics: %v", pv), input)
		return
	}
	if err != nil {
		r.Distinct("rejected: " + strings.SplitN(err.Error(), " at ", 2)[0])
		return
	}
	if plan.Concurrency < 1 {
		r.Fail("C14/yaml-no-worker", key, fmt.Sprintf("accepted with limits concurrency %d: no worker can run", plan.Concurrency), input)
	}
	for i, st := range plan.VerifStages() {
		if st.UsersConcurrency == 0 && st.IterationDuration <= 0 {
			r.Fail("C14/yaml-interval", key, fmt.Sprintf("stage %d accepted with tick interval %s", i, st.IterationDuration), input)
		}
		if st.UsersConcurrency < 0 {
			r.Fail("C14/yaml-no-worker", key, fmt.Sprintf("stage %d accepted with users concurrency %d", i, st.UsersConcurrency), input)
		}
	}
	path := filepath.Join(dir, "c.yaml")
	if werr := os.WriteFile(path, []byte(doc), 0o600); werr != nil {
		panic(werr)
	}
	res := hlib.RunCLI([]string{"file", path, "-v"}, 60*time.Second, func(t *f1testing.T) { vtime.Sleep(10 * time.Millisecond) })
	switch res.Status {
	case vrt.StCrash:
		r.Fail("C14/yaml-crash", strings.SplitN(key, "/", 2)[0]+":"+panicKind(res.Crash), "accepted, then the run crashes: "+firstLine(res.Crash), input)
	case vrt.StDeadlock, vrt.StHorizon, vrt.StStepCap:
		r.Fail("C14/yaml-hang", key, fmt.Sprintf("accepted, then the run does not finish (%s): %s", res.Status, res.Detail), input)
	}
	r.Distinct(fmt.Sprintf("accepted stages=%d ran=%v", len(plan.Stages), res.Iterations > 0))
}

// yamlBytes: every document of length <= L over a YAML-significant alphabet,
// and the complete one-edit neighbourhood of a valid config (parse only).
func yamlBytes(maxLen int) hlib.Suite {
	alpha := []string{"a", "1", ":", " ", "-", "\n", "[", "]", "{", "}", "\"", "'", "#", "&", "*", "!", "|", ">", "%", "@", "?", ",", "\t", "\x00", "~"}
	return hlib.Suite{Name: fmt.Sprintf("yaml-bytes/len<=%d+one-edit-neighbourhood", maxLen), Weight: 2, Run: func(r *hlib.Rec) {
		now := time.Date(2024, 1, 1, 0, 0, 0, 0, time.UTC)
		try := func(doc, what string) {
			r.Eval()
			var err error
			if p, pv := hlib.Catch(func() { _, err = file.ParseConfigFile([]byte(doc), now) }); p {
				r.Fail("C14/yaml-parse-panics", what, fmt.Sprintf("ParseConfigFile panics: %v", pv), fmt.Sprintf("%q", doc))
				return
			}
			if err == nil {
				r.Distinct("accepted")
			} else {
				e := err.Error()
				if len(e) > 40 {
					e = e[:40]
				}
				r.Distinct("rejected " + e)
			}
		}
		allStrings(alpha, maxLen, func(s string) bool {
			if r.Expired() {
				return false
			}
			if !r.Mine() {
				return true
			}
			try(s, "short-document")
			return true
		})
		for i := 0; i <= len(validYAML); i++ {
			if r.Expired() {
				return
			}
			if !r.Mine() {
				continue
			}
			if i < len(validYAML) {
				try(validYAML[:i]+validYAML[i+1:], "delete-one-byte")
			}
			for _, a := range alpha {
				try(validYAML[:i]+a+validYAML[i:], "insert-one-byte")
				if i < len(validYAML) {
					try(validYAML[:i]+a+validYAML[i+1:], "substitute-one-byte")
				}
			}
		}
		r.Sample([]string{"", "a:", "- 1", "{", validYAML[:40] + "..."})
	}}
}

// peakRateSuite: the gaussian --peak-rate flag takes a rate string too; an
// accepted one means what it spells: with the default 24 h window and 1 s
// ticks, the tick at the peak requests N per <duration>, per second.
func peakRateSuite() hlib.Suite {
	return hlib.Suite{Name: "gaussian-peak-rate/means-what-it-spells", Run: func(r *hlib.Rec) {
		counts := []int{1, 3, 7, 90, 2000}
		units := []string{"s", "1s", "2s", "500ms", "100ms", "ms", "1500us", "500us", "250us", "m", "90s", "h", "2500us", "1.5ms"}
		for _, n := range counts {
			for _, u := range units {
				if !r.Mine() {
					continue
				}
				r.Eval()
				str := fmt.Sprintf("%d/%s", n, u)
				_, accept, wn, wu := refRate(str)
				input := fmt.Sprintf("f1 run gaussian --peak-rate %s (defaults otherwise: 24h window, peak at 14h, 1s ticks)", str)
				r.SampleCase(input)
				tr, _, err := (&hlib.RunSpec{Mode: "gaussian", Flags: map[string]string{"peak-rate": str, "distribution": "none", "jitter": "0"}}).BuildTrigger()
				if err != nil {
					if accept {
						r.Distinct("rejected " + u)
					}
					continue
				}
				if !accept {
					continue
				}
				tps := float64(wn) / wu.Seconds()
				// the first tick of a fresh rate function, asked at the peak: no carried fraction yet
				at := time.Date(2024, 1, 1, 14, 0, 0, 0, time.UTC)
				var got int
				if p, pv := hlib.Catch(func() { got = tr.DryRun(at) }); p {
					r.Fail("C14/peak-rate-panics", u, fmt.Sprint(pv), input)
					continue
				}
				if d := float64(got) - tps; d > 1+0.005*tps || d < -1-0.005*tps {
					r.Fail("C14/peak-rate-meaning", "unit="+u, fmt.Sprintf("the tick at the peak requests %d, the string spells %.4g per second", got, tps), input)
				}
				r.Distinct("accepted " + u)
			}
		}
		// boundary values of the bell's parameters: rejected, or a rate function whose values are numbers
		// (a NaN or an infinity converted to an integer shows as the extreme int64 values)
		for _, sd := range []string{"0s", "1ns", "1ms"} {
			for _, extra := range [][]string{nil, {"peak-rate", "5/s"}, {"volume", "0"}, {"repeat", "1s", "iteration-frequency", "1s"},
				// ticks further apart than the window repeats
				{"repeat", "1s", "iteration-frequency", "2s"}, {"repeat", "1s", "iteration-frequency", "2s", "standard-deviation", "2h"},
				{"volume", "1000", "repeat", "10s", "iteration-frequency", "30s", "peak", "5s", "standard-deviation", "2s"},
				{"volume", "100000", "repeat", "1m", "iteration-frequency", "1m1s", "peak", "30s", "standard-deviation", "20s"},
				{"volume", "1000", "repeat", "10s", "iteration-frequency", "15s", "peak", "5s", "standard-deviation", "5s", "weights", "1,2,3"}} {
				r.Eval()
				flags := map[string]string{"standard-deviation": sd, "distribution": "none", "jitter": "0"}
				for i := 0; i+1 < len(extra); i += 2 {
					flags[extra[i]] = extra[i+1]
				}
				input := fmt.Sprintf("f1 run gaussian --standard-deviation %s %v", sd, extra)
				r.SampleCase(input)
				tr, _, err := (&hlib.RunSpec{Mode: "gaussian", Flags: flags}).BuildTrigger()
				if err != nil {
					r.Distinct("rejected sd=" + sd)
					continue
				}
				for k := 0; k < 65; k++ { // every second of more than a minute: every position in the short windows
					var got int
					if p, pv := hlib.Catch(func() { got = tr.DryRun(time.Date(2024, 1, 1, 14, 0, k, 0, time.UTC)) }); p {
						r.Fail("C14/gaussian-boundary-panics", "sd="+sd, fmt.Sprint(pv), input)
						break
					}
					if got == math.MinInt64 || got == math.MaxInt64 {
						r.Fail("C14/unusable-rate-function", "not-a-number/sd="+sd, fmt.Sprintf("accepted, but the rate function returns %d: a NaN or an infinity converted to an integer", got), input)
						break
					}
					if got < 0 {
						r.Fail("C14/unusable-rate-function", "negative-bell", fmt.Sprintf("accepted, but the bell curve's rate function returns %d", got), input)
						break
					}
				}
				r.Distinct("accepted sd=" + sd)
			}
		}
		// a ramp between two rate strings: rejected, or the load the two strings spell (the mean of the two
		// rates over the ramp's duration), whatever units they are spelled in
		for _, start := range []string{"0", "0/s", "0/m", "0/10s", "1/s", "60/m", "6/10s"} {
			for _, end := range []string{"10/m", "10/s", "6/10s", "0", "0/m", "120/m"} {
				r.Eval()
				input := fmt.Sprintf("f1 run ramp --start-rate %s --end-rate %s --ramp-duration 10m", start, end)
				r.SampleCase(input)
				_, okS, nS, uS := refRate(start)
				_, okE, nE, uE := refRate(end)
				rates, err := ramp.CalculateRampRate(start, end, "none", 10*time.Minute, 0)
				if err != nil || !okS || !okE {
					r.Distinct("ramp rejected")
					continue
				}
				t0 := time.Date(2024, 1, 1, 0, 0, 0, 0, time.UTC)
				sum := 0
				if p, pv := hlib.Catch(func() {
					for at := time.Duration(0); at < 10*time.Minute; at += rates.IterationDuration {
						sum += rates.Rate(t0.Add(at))
					}
				}); p || rates.IterationDuration <= 0 {
					r.Fail("C14/ramp-unusable", "panic-or-interval", fmt.Sprint(pv, rates.IterationDuration), input)
					continue
				}
				want := (float64(nS)/uS.Seconds() + float64(nE)/uE.Seconds()) / 2 * 600
				// each tick's value is the interpolated rate cut to an integer (towards the start rate): up to one per tick either way
				ticks := float64(10 * time.Minute / rates.IterationDuration)
				if d := float64(sum) - want; d > 0.1*want+10+ticks || d < -0.1*want-10-ticks {
					r.Fail("C14/ramp-meaning", "units", fmt.Sprintf("accepted; the ticks of the 10-minute ramp request %d in all, the two strings spell about %.0f", sum, want), input)
				}
				r.Distinct("ramp accepted")
			}
		}
		r.Sample(map[string]any{"counts": counts, "units": units})
	}}
}

func suites(tier string) []hlib.Suite {
	if tier == "quick" {
		return []hlib.Suite{rateStrings(6), rateStringsWide(4), peakRateSuite(), stagesStrings(6), cliSuite(false), yamlSuite(true), yamlBytes(2)}
	}
	return []hlib.Suite{rateStrings(8), rateStringsWide(6), peakRateSuite(), stagesStrings(8), cliSuite(true), yamlSuite(true), yamlBytes(3)}
}

func main() { hlib.EnumMain("C14", suites) }
