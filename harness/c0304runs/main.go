// Harness "c0304runs" (E2 over configurations, whole Run.Do on the default
// virtual-time schedule): the max-iterations ceiling / ids (C03) and the
// concurrency ceiling / usability (C04) through every trigger mode's real
// construction path (flags -> builder -> trigger -> pool), which the pool-level
// harness does not go through.
package main

import (
	"flag"
	"fmt"
	"sort"
	"strconv"
	"time"

	"github.com/form3tech-oss/f1/v2/internal/options"
	"github.com/form3tech-oss/f1/v2/internal/verifharness/hlib"
	"github.com/form3tech-oss/f1/v2/internal/verifshim/vrt"
	"github.com/form3tech-oss/f1/v2/internal/verifshim/vtime"
	"github.com/form3tech-oss/f1/v2/pkg/f1"
	"github.com/form3tech-oss/f1/v2/pkg/f1/scenarios"
	f1testing "github.com/form3tech-oss/f1/v2/pkg/f1/testing"
)

var prop = flag.String("prop", "C03", "C03|C04")

type modeCfg struct {
	mode  string
	flags func(perTick int) map[string]string
}

var modes = []modeCfg{
	{"constant", func(n int) map[string]string {
		return map[string]string{"rate": fmt.Sprintf("%d/100ms", n), "distribution": "none"}
	}},
	{"staged", func(n int) map[string]string {
		return map[string]string{"stages": fmt.Sprintf("0s:%d,10s:%d", n, n), "iterationFrequency": "100ms", "distribution": "none"}
	}},
	{"ramp", func(n int) map[string]string {
		return map[string]string{"start-rate": fmt.Sprintf("%d/100ms", n), "end-rate": fmt.Sprintf("%d/100ms", n+1), "ramp-duration": "10s", "distribution": "none"}
	}},
	{"gaussian", func(n int) map[string]string {
		// a flat bell: about n per 100 ms tick near the start of the window
		return map[string]string{"volume": fmt.Sprint(n * 600 * 100), "repeat": "1m", "iteration-frequency": "100ms", "peak": "0s", "standard-deviation": "1h", "distribution": "none"}
	}},
	{"users", func(int) map[string]string { return nil }},
}

func fileYAML(conc int, limit uint64) string {
	return fmt.Sprintf(`scenario: s
limits:
  max-duration: 5s
  concurrency: %d
  max-iterations: %d
  ignore-dropped: true
stages:
- duration: 400ms
  mode: constant
  rate: %d/100ms
  jitter: 0
  distribution: none
- duration: 400ms
  mode: users
- duration: 400ms
  mode: staged
  stages: 0s:%d,1s:%d
  iteration-frequency: 100ms
  jitter: 0
  distribution: none
`, conc, limit, conc+1, conc+1, conc+1)
}

func suite() hlib.Suite {
	return hlib.Suite{Name: *prop + "/every-trigger-mode/whole-runs", Run: func(r *hlib.Rec) {
		all := append([]modeCfg{}, modes...)
		all = append(all, modeCfg{mode: "file"})
		for _, mc := range all {
			concs := []int{1, 2, 3}
			if *prop == "C04" {
				concs = append(concs, 16, 300) // large pools: every worker is woken and used
			} else {
				concs = append(concs, 300) // a large pool with every worker in flight: 304 invocations, each with its own id throughout
			}
			for _, conc := range concs {
				for _, limit := range []uint64{1, 2, 3, 7, 1100} {
					for bi, body := range []time.Duration{time.Millisecond, 150 * time.Millisecond, time.Millisecond, time.Millisecond, time.Millisecond, 150 * time.Millisecond, 150 * time.Millisecond} {
						// limit 1100 (C03, three workers, instant bodies only): ids well beyond a thousand are still their own decimal spelling
						if limit == 1100 && (*prop != "C03" || conc != 3 || bi != 0 || mc.mode == "file") {
							continue
						}
						if !r.Mine() || r.Expired() {
							continue
						}
						// third variant: the first iteration marks the scenario-level handle (the one setup got) failed;
						// the run still makes exactly the allowed iterations
						// fourth variant (C03 only): every second iteration fails; failed iterations count like any other
						if *prop == "C03" && conc > 3 && (bi != 1 || limit != 7) {
							continue
						}
						// fifth variant (C03 only): the scenario is a combination (f1.CombineScenarios) of the id-observing function and a passing one
						combined := bi == 4
						if combined && (*prop != "C03" || conc > 3) {
							continue
						}
						// sixth variant (C04 only): a combination of two parts that both take time and both count themselves in flight
						// (the parts of one iteration run one after the other on that iteration's handle);
						// seventh variant (C04 only): every iteration's cleanup registers another cleanup - the worker must come back
						twoParts, nestedCleanup := bi == 5, bi == 6
						if (twoParts || nestedCleanup) && (*prop != "C04" || conc > 3) {
							continue
						}
						someFail := bi == 3
						if someFail && *prop != "C03" {
							continue
						}
						failsScenarioT := bi == 2
						if failsScenarioT && *prop != "C03" {
							if conc <= 3 {
								continue
							}
							// large pools: bodies shorter than a tick as well (what one tick does not wake, the next must not hide)
							failsScenarioT, body = false, 50*time.Millisecond
						}
						if conc > 3 && limit == 7 {
							limit = uint64(conc) + 4
						}
						if *prop == "C04" && (limit < 7 || mc.mode == "file") {
							// (file mode is outside C04's statement: a new stage's pool may overlap
							// the previous stage's in-flight work, and does - 2 in flight with concurrency 1)
							continue
						}
						r.Eval()
						input := fmt.Sprintf("mode=%s concurrency=%d max-iterations=%d body=%s", mc.mode, conc, limit, body)
						if failsScenarioT {
							input += " first-iteration-fails-the-scenario-level-handle"
						}
						if someFail {
							input += " every-second-iteration-fails"
						}
						if combined {
							input += " combined-scenario"
						}
						if twoParts {
							input += " combined-scenario-of-two-parts-that-take-time"
						}
						if nestedCleanup {
							input += " iteration-cleanups-register-cleanups"
						}
						r.SampleCase(input)
						var ids []int
						inflight, hw := 0, 0
						live := map[*f1testing.T]bool{}
						shared := false
						changed := ""
						rs := &hlib.RunSpec{Mode: mc.mode, Quiet: true, CompletionTimeout: 2 * time.Second,
							Opts: options.RunOptions{MaxDuration: 5 * time.Second, Concurrency: conc, MaxIterations: limit, IgnoreDropped: true}}
						if mc.mode == "file" {
							rs.FileYAML = fileYAML(conc, limit)
						} else {
							rs.Flags = mc.flags(conc + 1)
						}
						rs.ScenarioFn = func(scenarioT *f1testing.T) f1testing.RunFn {
							return func(t *f1testing.T) {
								id, _ := strconv.Atoi(t.Iteration)
								ids = append(ids, id)
								if failsScenarioT && len(ids) == 1 {
									scenarioT.Fail()
								}
								if someFail && len(ids)%2 == 0 {
									defer t.Fail()
								}
								if nestedCleanup {
									t.Cleanup(func() { t.Cleanup(func() {}) })
								}
								inflight++
								if inflight > hw {
									hw = inflight
								}
								if live[t] {
									shared = true
								}
								live[t] = true
								vtime.Sleep(body)
								if t.Iteration != strconv.Itoa(id) {
									changed = fmt.Sprintf("iteration %d saw its id become %q while it was running", id, t.Iteration)
								}
								delete(live, t)
								inflight--
							}
						}
						if combined {
							rs.ScenarioFn = f1.CombineScenarios(rs.ScenarioFn, func(*f1testing.T) f1testing.RunFn { return func(*f1testing.T) {} })
						}
						if twoParts {
							rs.ScenarioFn = f1.CombineScenarios(rs.ScenarioFn, rs.ScenarioFn)
						}
						if limit == 1100 {
							rs.Flags = mc.flags(40) // 40 per 100 ms tick
							rs.Opts.MaxDuration = 30 * time.Second
						}
						res := hlib.RunOnce(rs, -1, 0, 120*time.Second)
						if res.BuildErr != nil {
							panic(res.BuildErr)
						}
						if res.Out.Status != vrt.StOK {
							r.Fail(*prop+"/run-broken", mc.mode, res.Out.Status.String()+": "+res.Out.Detail+res.Out.Crash, input)
							continue
						}
						switch *prop {
						case "C03":
							if uint64(len(ids)) != limit {
								kind := "short"
								if uint64(len(ids)) > limit {
									kind = "exceeded"
								}
								r.Fail("C03/run-ceiling", kind+"/"+mc.mode, fmt.Sprintf("%d invocations with max-iterations %d (the trigger keeps requesting)", len(ids), limit), input)
							}
							if changed != "" {
								r.Fail("C03/run-ids", "changed-while-running/"+mc.mode, changed, input)
							}
							sorted := append([]int(nil), ids...)
							sort.Ints(sorted)
							for i, id := range sorted {
								if id != i+1 {
									r.Fail("C03/run-ids", "not-1..k/"+mc.mode, fmt.Sprintf("observed ids %v", sorted), input)
									break
								}
							}
						case "C04":
							if hw > conc {
								r.Fail("C04/run-ceiling", "exceeded/"+mc.mode, fmt.Sprintf("%d iterations in flight with concurrency %d", hw, conc), input)
							}
							if shared {
								r.Fail("C04/run-handle", "shared/"+mc.mode, "two concurrently executing iterations were handed the same test handle", input)
							}
							// a worker that does not come back from an iteration's cleanups is not usable any more: the run then makes
							// fewer iterations than the limit although the trigger keeps requesting
							if nestedCleanup && uint64(len(ids)) != limit {
								r.Fail("C04/run-usable", "worker-lost/"+mc.mode, fmt.Sprintf("%d iterations ran with max-iterations %d: workers did not return from their iterations", len(ids), limit), input)
							}
							// requests per tick exceed the concurrency and bodies outlast a tick: every worker must get used
							if (body >= 100*time.Millisecond || conc > 3) && hw < conc && limit >= uint64(conc) {
								r.Fail("C04/run-usable", "not-all-workers/"+mc.mode, fmt.Sprintf("only %d of %d workers were ever executing at once", hw, conc), input)
							}
						}
						r.Distinct(input)
					}
				}
			}
		}
	}}
}

// secondTimeSuite (C03): the ceiling and the ids on the second occasion - a second users stage of a config file after a
// first one that ended by its duration (the limit is reached in the second), and a second run of the same registered
// combined scenario in one process.
func secondTimeSuite() hlib.Suite {
	return hlib.Suite{Name: "C03/second-users-stage+second-run-of-one-combined-scenario", Run: func(r *hlib.Rec) {
		checkIDs := func(what, input string, ids []int, limit uint64) {
			if uint64(len(ids)) != limit {
				kind := "short"
				if uint64(len(ids)) > limit {
					kind = "exceeded"
				}
				r.Fail("C03/run-ceiling", kind+"/"+what, fmt.Sprintf("%d invocations with max-iterations %d (the trigger keeps requesting)", len(ids), limit), input)
			}
			sorted := append([]int(nil), ids...)
			sort.Ints(sorted)
			for i, id := range sorted {
				if id != i+1 {
					if len(sorted) > 24 {
						sorted = sorted[:24]
					}
					r.Fail("C03/run-ids", "not-1..k/"+what, fmt.Sprintf("observed ids (sorted, first 24) %v", sorted), input)
					break
				}
			}
		}
		for _, conc := range []int{1, 2, 3} {
			if !r.Mine() {
				continue
			}
			r.Eval()
			limit := uint64(conc * 150)
			input := fmt.Sprintf("config file: users for 100ms, constant 1/100ms for 100ms, users for 400ms; concurrency=%d max-iterations=%d body=1ms (the first users stage ends by its duration at about %d iterations)", conc, limit, conc*80)
			r.SampleCase(input)
			var ids []int
			rs := &hlib.RunSpec{Mode: "file", Quiet: true, CompletionTimeout: 2 * time.Second,
				FileYAML: fmt.Sprintf("scenario: s\nlimits:\n  max-duration: 5s\n  concurrency: %d\n  max-iterations: %d\n  ignore-dropped: true\nstages:\n- duration: 100ms\n  mode: users\n- duration: 100ms\n  mode: constant\n  rate: 1/100ms\n  jitter: 0\n  distribution: none\n- duration: 400ms\n  mode: users\n", conc, limit)}
			rs.ScenarioFn = func(*f1testing.T) f1testing.RunFn {
				return func(t *f1testing.T) {
					id, _ := strconv.Atoi(t.Iteration)
					ids = append(ids, id)
					vtime.Sleep(time.Millisecond)
				}
			}
			res := hlib.RunOnce(rs, -1, 0, 120*time.Second)
			if res.BuildErr != nil || res.Out.Status != vrt.StOK {
				r.Fail("C03/run-broken", "file-two-users-stages", fmt.Sprint(res.BuildErr, res.Out.Status, res.Out.Detail, res.Out.Crash), input)
				continue
			}
			checkIDs("file-two-users-stages", input, ids, limit)
			r.Distinct(input)
		}
		for _, mode := range []string{"constant", "users"} {
			for _, limit := range []uint64{3, 5} {
				if !r.Mine() {
					continue
				}
				r.Eval()
				input := fmt.Sprintf("one registered combined scenario (f1.CombineScenarios of two parts) run twice in one process: mode=%s concurrency=2 max-iterations=%d", mode, limit)
				r.SampleCase(input)
				var ids []int
				part := func(*f1testing.T) f1testing.RunFn {
					return func(t *f1testing.T) {
						id, _ := strconv.Atoi(t.Iteration)
						ids = append(ids, id)
						vtime.Sleep(time.Millisecond)
					}
				}
				scs := scenarios.New().Add(&scenarios.Scenario{Name: "s", ScenarioFn: f1.CombineScenarios(part, func(*f1testing.T) f1testing.RunFn { return func(*f1testing.T) {} })})
				for runNo := 1; runNo <= 2; runNo++ {
					ids = nil
					rs := &hlib.RunSpec{Mode: mode, Quiet: true, CompletionTimeout: 2 * time.Second, Scenarios: scs,
						Opts: options.RunOptions{MaxDuration: 5 * time.Second, Concurrency: 2, MaxIterations: limit, IgnoreDropped: true}}
					if mode == "constant" {
						rs.Flags = map[string]string{"rate": "3/100ms", "distribution": "none"}
					}
					res := hlib.RunOnce(rs, -1, 0, 120*time.Second)
					if res.BuildErr != nil || res.Out.Status != vrt.StOK {
						r.Fail("C03/run-broken", "combined-twice", fmt.Sprint(res.BuildErr, res.Out.Status, res.Out.Detail, res.Out.Crash), input)
						break
					}
					checkIDs(fmt.Sprintf("combined-run-%d", runNo), input+fmt.Sprintf(" (run %d)", runNo), ids, limit)
				}
				r.Distinct(input)
			}
		}
	}}
}

func suites(string) []hlib.Suite {
	if *prop == "C03" {
		return []hlib.Suite{suite(), secondTimeSuite()}
	}
	return []hlib.Suite{suite()}
}

func main() { hlib.EnumMain(*prop, suites) }
