// Harness for C19 (E2): summary and progress output state the same numbers as
// the result they render, in the human-readable (both templates) and the
// structured-log form, for every combination over a small alphabet.
package main

import (
	"bytes"
	"encoding/json"
	"errors"
	"fmt"
	"log/slog"
	"os"
	"path/filepath"
	"regexp"
	"strconv"
	"strings"
	"time"

	"github.com/form3tech-oss/f1/v2/internal/metrics"
	"github.com/form3tech-oss/f1/v2/internal/options"
	"github.com/form3tech-oss/f1/v2/internal/progress"
	"github.com/form3tech-oss/f1/v2/internal/run"
	"github.com/form3tech-oss/f1/v2/internal/run/views"
	"github.com/form3tech-oss/f1/v2/internal/ui"
	"github.com/form3tech-oss/f1/v2/internal/verifharness/hlib"
	"github.com/form3tech-oss/f1/v2/internal/verifshim/vrt"
	"github.com/form3tech-oss/f1/v2/internal/verifshim/vtime"
	f1testing "github.com/form3tech-oss/f1/v2/pkg/f1/testing"
)

var (
	countAlpha = []uint64{0, 1, 2, 10, 1000, 300_000_000_000_000_000} // the last: 100 x count no longer fits 64 bits
	durAlpha   = []time.Duration{0, 1, time.Millisecond, time.Hour}
	elapsed    = []time.Duration{0, 400 * time.Millisecond, time.Second, 90 * time.Second}
	errAlpha   = []error{nil, errors.New("x"), errors.New("bad {{.Failed}} 100% sure\nsecond line {red}"),
		errors.New(`Get "http://h/<id>?a=1&b='2'+3": refused`)} // characters a markup-aware renderer would escape
	ansi      = regexp.MustCompile("\x1b\\[[0-9;]*m")
	reStarted = regexp.MustCompile(`(?m)^(\d+) iterations started in `)
	reElapsed = regexp.MustCompile(`(?m)^\d+ iterations started in (\S+)`)
	reSucc    = regexp.MustCompile(`(?m)^Successful Iterations: (\d+) \(([0-9.]+|NaN|\+Inf)%`)
	reFail    = regexp.MustCompile(`(?m)^Failed Iterations: (\d+) \(([0-9.]+|NaN|\+Inf)%`)
	reDrop    = regexp.MustCompile(`(?m)^Dropped Iterations: (\d+) \(([0-9.]+|NaN|\+Inf)%`)
	reProg    = regexp.MustCompile(`✔ +(\d+) +(?:⦸ +(\d+) +)?✘ +(\d+)`)
)

func snap(c uint64, d time.Duration) progress.IterationDurationsSnapshot {
	return progress.IterationDurationsSnapshot{Average: d, Count: c, Min: d, Max: d}
}

func wantPct(c, total uint64) string { return fmt.Sprintf("%0.2f", 100.0*float64(c)/float64(total)) }

func checkLine(r *hlib.Rec, text string, re *regexp.Regexp, what string, c, total uint64, input string) {
	m := re.FindStringSubmatch(text)
	if c == 0 {
		if m != nil {
			r.Fail("C19/summary-"+what, "line-for-zero", "a line is printed for a zero count: "+m[0], input)
		}
		return
	}
	if m == nil {
		r.Fail("C19/summary-"+what, "line-missing", fmt.Sprintf("no %s line although the count is %d", what, c), input)
		return
	}
	if m[1] != strconv.FormatUint(c, 10) {
		r.Fail("C19/summary-"+what, "count", fmt.Sprintf("prints %s, result has %d", m[1], c), input)
	}
	if m[2] != wantPct(c, total) {
		r.Fail("C19/summary-"+what, "percentage", fmt.Sprintf("prints %s%%, the share of all %d iterations is %s%%", m[2], total, wantPct(c, total)), input)
	}
}

type logged struct {
	Level string `json:"level"`
	Msg   string `json:"msg"`
	Error string `json:"error"`
	Stats struct {
		Started    uint64 `json:"started"`
		Successful uint64 `json:"successful"`
		Failed     uint64 `json:"failed"`
		Dropped    uint64 `json:"dropped"`
	} `json:"iteration_stats"`
}

func logOf(r *hlib.Rec, f func(l *slog.Logger), input string) *logged {
	var buf bytes.Buffer
	l := slog.New(slog.NewJSONHandler(&buf, &slog.HandlerOptions{Level: slog.LevelDebug}))
	f(l)
	var out logged
	if err := json.Unmarshal(bytes.TrimSpace(buf.Bytes()), &out); err != nil {
		r.Fail("C19/structured", "not-one-json-record", fmt.Sprintf("%v: %q", err, buf.String()), input)
		return nil
	}
	return &out
}

func viewsSuite() hlib.Suite {
	return hlib.Suite{Name: "views/result+progress/all-combinations", Run: func(r *hlib.Rec) {
		v := views.New()
		countAlpha := countAlpha
		if thorough {
			countAlpha = append(append([]uint64{}, countAlpha...), 3, 99, 12345, 1<<40)
		}
		for _, s := range countAlpha {
			for _, f := range countAlpha {
				for _, d := range countAlpha {
					if !r.Mine() {
						continue
					}
					for _, du := range durAlpha {
						for _, el := range elapsed {
							for ei, e := range errAlpha {
								for _, failed := range []bool{false, true} {
									for _, lp := range []string{"", "/tmp/x", `/tmp/f1-a&b<c>+'d'"e".log`} {
										total, startedN := s+f+d, s+f
										data := views.ResultData{Error: e, LogFilePath: lp, SuccessfulIterationDurations: snap(s, du), FailedIterationDurations: snap(f, du),
											IterationsStarted: startedN, Duration: el, SuccessfulIterationCount: s, Iterations: total, FailedIterationCount: f, DroppedIterationCount: d, Failed: failed}
										input := fmt.Sprintf("result successful=%d failed=%d dropped=%d stat=%s elapsed=%s error#%d failed=%v log=%q", s, f, d, du, el, ei, failed, lp)
										r.SampleCase(input)
										vc := v.Result(data)
										if lp == "" && ei == 0 && total > 0 {
											// view data is a plain struct: rendering must not fail either when its total is
											// inconsistent with its counts (zero iterations, non-zero counts)
											bad := data
											bad.Iterations = 0
											if p, pv := hlib.Catch(func() { v.Result(bad).VerifRender(false) }); p {
												r.Fail("C19/render-panics", "result/zero-total-nonzero-counts", fmt.Sprint(pv), input+" with Iterations=0")
											}
										}
										for _, tty := range []bool{false, true} {
											r.Eval()
											var text string
											if p, pv := hlib.Catch(func() { text = vc.VerifRender(tty) }); p {
												r.Fail("C19/render-panics", "result", fmt.Sprint(pv), input)
												continue
											}
											text = ansi.ReplaceAllString(text, "")
											if tty == false && strings.Contains(text, "\x1b") {
												r.Fail("C19/colours", "in-plain", "escape sequences in the plain rendering", input)
											}
											hasFailed, hasPassed := strings.Contains(text, "Load Test Failed"), strings.Contains(text, "Load Test Passed")
											if hasFailed != failed || hasPassed == failed {
												r.Fail("C19/banner", fmt.Sprint(failed), fmt.Sprintf("banner Failed=%v Passed=%v for verdict failed=%v", hasFailed, hasPassed, failed), input)
											}
											if m := reStarted.FindStringSubmatch(text); m == nil || m[1] != strconv.FormatUint(startedN, 10) {
												r.Fail("C19/summary-started", "count", fmt.Sprintf("started line %v, want %d", m, startedN), input)
											}
											checkLine(r, text, reSucc, "successful", s, total, input)
											checkLine(r, text, reFail, "failed", f, total, input)
											checkLine(r, text, reDrop, "dropped", d, total, input)
											if (e != nil) != strings.Contains(text, "Error: ") {
												r.Fail("C19/summary-error", "line", "error line presence does not match the error", input)
											}
											if e != nil && !strings.Contains(text, "Error: "+e.Error()) {
												r.Fail("C19/summary-error", "text", "error text is not printed verbatim", input)
											}
											if lp != "" && strings.Contains(text, "Full logs:") && !strings.Contains(text, "Full logs: "+lp) {
												r.Fail("C19/summary-log-path", "text", "the log file path is not printed verbatim", input)
											}
										}
										r.Eval()
										if lg := logOf(r, vc.Log, input); lg != nil {
											if (lg.Msg == "Load Test Failed") != failed || (lg.Msg == "Load Test Passed") == failed {
												r.Fail("C19/structured-banner", fmt.Sprint(failed), "message "+lg.Msg, input)
											}
											if lg.Stats.Successful != s || lg.Stats.Failed != f || lg.Stats.Dropped != d {
												r.Fail("C19/structured-counts", "mismatch", fmt.Sprintf("logged %+v", lg.Stats), input)
											}
											if startedN > 0 && lg.Stats.Started != startedN {
												r.Fail("C19/structured-counts", "started", fmt.Sprintf("logged started %d, want %d", lg.Stats.Started, startedN), input)
											}
											if failed && e != nil && lg.Error != e.Error() {
												r.Fail("C19/structured-error", "text", fmt.Sprintf("logged error %q", lg.Error), input)
											}
										}
										r.Distinct(fmt.Sprintf("z=%v%v%v err=%d failed=%v", s == 0, f == 0, d == 0, ei, failed))
									}
								}
							}
							// progress line
							for _, period := range elapsed {
								pd := views.ProgressData{SuccessfulIterationDurationsForPeriod: snap(s, du), Duration: el, SuccessfulIterationCount: s, DroppedIterationCount: d, FailedIterationCount: f, Period: period}
								input := fmt.Sprintf("progress successful=%d failed=%d dropped=%d stat=%s elapsed=%s period=%s", s, f, d, du, el, period)
								r.SampleCase(input)
								pc := v.Progress(pd)
								for _, tty := range []bool{false, true} {
									r.Eval()
									var text string
									if p, pv := hlib.Catch(func() { text = pc.VerifRender(tty) }); p {
										r.Fail("C19/render-panics", "progress", fmt.Sprint(pv), input)
										continue
									}
									text = ansi.ReplaceAllString(text, "")
									m := reProg.FindStringSubmatch(text)
									if m == nil {
										r.Fail("C19/progress", "unparseable", text, input)
										continue
									}
									dd := "0"
									if m[2] != "" {
										dd = m[2]
									}
									if m[1] != fmt.Sprint(s) || m[3] != fmt.Sprint(f) || dd != fmt.Sprint(d) {
										r.Fail("C19/progress", "counts", fmt.Sprintf("line %q states ✔%s ⦸%s ✘%s", text, m[1], dd, m[3]), input)
									}
								}
								r.Eval()
								if lg := logOf(r, pc.Log, input); lg != nil {
									if lg.Stats.Successful != s || lg.Stats.Failed != f || lg.Stats.Dropped != d {
										r.Fail("C19/structured-counts", "progress", fmt.Sprintf("logged %+v", lg.Stats), input)
									}
								}
							}
						}
					}
				}
			}
		}
		r.Sample(map[string]any{"counts": countAlpha, "stat_durations": durAlpha, "elapsed": elapsed, "errors": 3, "templates": "tty+plain+structured"})
	}}
}

var optAlpha = []options.RunOptions{{}, {MaxFailuresRate: 50}, {IgnoreDropped: true}, {IgnoreDropped: true, MaxFailuresRate: 50}, {MaxFailures: 2},
	{IgnoreDropped: true, MaxFailures: 2, Verbose: true, MaxIterations: 5, Concurrency: 3, MaxDuration: time.Minute}}

// resultSuite: the data run.Result hands to the views equals its snapshot.
func resultSuite() hlib.Suite {
	return hlib.Suite{Name: "run.Result/summary+progress-data-equals-snapshot", Run: func(r *hlib.Rec) {
		v := views.New()
		for _, s := range []uint64{0, 1, 3} {
			for _, f := range []uint64{0, 1, 3} {
				for _, d := range []uint64{0, 1, 3} {
					for _, withErr := range []bool{false, true} {
						for oi0, opts := range append(append([]options.RunOptions{}, optAlpha...), optAlpha[0], optAlpha[3]) {
							// the last two: an iteration is recorded after the totals were taken (a straggler that
							// outlived the completion timeout); summary and verdict are those of the totals
							oi, straggler := oi0, oi0 >= len(optAlpha)
							mfr := opts.MaxFailuresRate
							r.Eval()
							stats := &progress.Stats{}
							for i := uint64(0); i < s; i++ {
								stats.Record(metrics.SuccessResult, int64(time.Millisecond)*int64(i+1))
							}
							for i := uint64(0); i < f; i++ {
								stats.Record(metrics.FailedResult, int64(7*time.Millisecond)*int64(i+2)) // statistics unlike the successful ones
							}
							for i := uint64(0); i < d; i++ {
								stats.Record(metrics.DroppedResult, 0)
							}
							res := run.NewResult(opts, v, stats)
							if withErr {
								res.AddError(errors.New("teardown failed"))
							}
							input := fmt.Sprintf("successful=%d failed=%d dropped=%d error=%v options#%d{ignore-dropped=%v max-failures=%d max-failures-rate=%d verbose=%v max-iterations=%d} recorded-after-totals=%v", s, f, d, withErr, oi, opts.IgnoreDropped, opts.MaxFailures, mfr, opts.Verbose, opts.MaxIterations, straggler)
							r.SampleCase(input)
							res.SnapshotProgress(time.Second)
							pd := res.Progress().VerifData()
							if pd.SuccessfulIterationCount != s || pd.FailedIterationCount != f || pd.DroppedIterationCount != d || pd.SuccessfulIterationDurationsForPeriod.Count != s {
								r.Fail("C19/result-progress-data", "mismatch", fmt.Sprintf("%+v", pd), input)
							}
							res.GetTotals()
							if straggler {
								stats.Record(metrics.FailedResult, int64(time.Millisecond))
								stats.Record(metrics.SuccessResult, int64(time.Millisecond))
								stats.Record(metrics.DroppedResult, 0)
							}
							sd := res.Summary().VerifData()
							if sd.SuccessfulIterationCount != s || sd.FailedIterationCount != f || sd.DroppedIterationCount != d || sd.Iterations != s+f+d || sd.IterationsStarted != s+f {
								r.Fail("C19/result-summary-data", "counts", fmt.Sprintf("%+v", sd), input)
							}
							if snapNow := res.Snapshot(); sd.SuccessfulIterationDurations != snapNow.SuccessfulIterationDurations || sd.FailedIterationDurations != snapNow.FailedIterationDurations {
								r.Fail("C19/result-summary-data", "duration-statistics", fmt.Sprintf("summary data: successful %+v failed %+v; the result's snapshot: successful %+v failed %+v", sd.SuccessfulIterationDurations, sd.FailedIterationDurations, snapNow.SuccessfulIterationDurations, snapNow.FailedIterationDurations), input)
							}
							if sd.Failed != res.Failed() || (sd.Error != nil) != withErr {
								r.Fail("C19/result-summary-data", "verdict", fmt.Sprintf("Failed=%v Error=%v", sd.Failed, sd.Error), input)
							}
							// and rendered: the text states the result's own counts and each count's share of all iterations
							var text string
							if p, pv := hlib.Catch(func() { text = res.Summary().VerifRender(false) }); p {
								r.Fail("C19/render-panics", "result-summary", fmt.Sprint(pv), input)
								continue
							}
							if m := reStarted.FindStringSubmatch(text); m == nil || m[1] != strconv.FormatUint(s+f, 10) {
								r.Fail("C19/summary-started", "count", fmt.Sprintf("started line %v, want %d", m, s+f), input)
							}
							// this result never recorded a start: the elapsed time it states cannot be more than the moment this case has existed
							if m := reElapsed.FindStringSubmatch(text); m != nil {
								if d, err := time.ParseDuration(m[1]); err != nil || d < 0 || d > time.Hour {
									r.Fail("C19/summary-elapsed", "absurd", fmt.Sprintf("the summary of a result that never started says %q", m[0]), input)
								}
							}
							checkLine(r, text, reSucc, "successful", s, s+f+d, input)
							checkLine(r, text, reFail, "failed", f, s+f+d, input)
							checkLine(r, text, reDrop, "dropped", d, s+f+d, input)
							if hasFailed := strings.Contains(text, "Load Test Failed"); hasFailed != res.Failed() || strings.Contains(text, "Load Test Passed") == res.Failed() {
								r.Fail("C19/banner", "result-summary", fmt.Sprintf("banner says failed=%v, Result.Failed()=%v", hasFailed, res.Failed()), input)
							}
							r.Distinct(input)
						}
					}
				}
			}
		}
		// several recorded errors (setup and teardown both failing, and more): the summary still renders,
		// says failed, and carries every message
		for nerr := 0; nerr <= 4; nerr++ {
			for _, f := range []uint64{0, 2} {
				r.Eval()
				stats := &progress.Stats{}
				stats.Record(metrics.SuccessResult, int64(time.Millisecond))
				for i := uint64(0); i < f; i++ {
					stats.Record(metrics.FailedResult, int64(time.Millisecond))
				}
				res := run.NewResult(options.RunOptions{}, v, stats)
				var msgs []string
				for i := 0; i < nerr; i++ {
					msgs = append(msgs, fmt.Sprintf("problem-%d of %d", i+1, nerr))
					res.AddError(errors.New(msgs[i]))
				}
				input := fmt.Sprintf("successful=1 failed=%d with %d recorded errors", f, nerr)
				r.SampleCase(input)
				var text string
				var lg *logged
				if p, pv := hlib.Catch(func() {
					res.GetTotals()
					text = res.Summary().VerifRender(false)
					lg = logOf(r, res.Summary().Log, input)
				}); p {
					r.Fail("C19/render-panics", fmt.Sprintf("result-summary/%s-errors", map[bool]string{true: "several", false: "0-or-1"}[nerr > 1]), fmt.Sprint(pv), input)
					continue
				}
				wantFailed := nerr > 0 || f > 0
				if strings.Contains(text, "Load Test Failed") != wantFailed {
					r.Fail("C19/banner", "several-errors", fmt.Sprintf("banner failed=%v, want %v", !wantFailed, wantFailed), input)
				}
				for _, m := range msgs {
					if !strings.Contains(text, m) {
						r.Fail("C19/summary-error", "message-missing", fmt.Sprintf("error %q is not in the summary", m), input)
					}
					if lg != nil && !strings.Contains(lg.Error, m) {
						r.Fail("C19/log-error", "message-missing", fmt.Sprintf("error %q is not in the structured record (%q)", m, lg.Error), input)
					}
				}
				r.Distinct(fmt.Sprintf("nerr=%d f=%d", nerr, f))
			}
		}
		r.Sample("counts {0,1,3}^3 x error x six option sets through run.Result.Summary()/Progress(); 0-4 recorded errors")
	}}
}

var thorough bool

// wholeRunSuite: what a real run prints. The summary printed (or logged) at the
// end of Run.Do states the counts of the result Do returns, the banner its
// verdict; every progress line states counts the run had reached by then
// (never more than the final ones, never decreasing).
func wholeRunSuite() hlib.Suite {
	return hlib.Suite{Name: "whole-runs/printed-summary-and-progress-equal-the-returned-result", Run: func(r *hlib.Rec) {
		dir, err := os.MkdirTemp("", "c19run")
		if err != nil {
			vrt.Infra("temp dir: " + err.Error())
		}
		defer os.RemoveAll(dir)
		for _, mode := range []string{"constant", "users"} {
			for _, pattern := range []string{"all-pass", "every-second-fails", "slow-bodies-dropped-requests", "setup-fails", "teardown-fails"} {
				for _, ending := range []string{"limit", "duration"} {
					for _, interactive := range []bool{true, false} {
						if !r.Mine() {
							continue
						}
						r.Eval()
						input := fmt.Sprintf("mode=%s bodies=%s ending=%s interactive-output=%v", mode, pattern, ending, interactive)
						r.SampleCase(input)
						var buf bytes.Buffer
						out := ui.NewOutput(slog.New(slog.NewJSONHandler(&buf, nil)), ui.NewDiscardPrinter(), false, true)
						if interactive {
							out = ui.NewOutput(hlib.DiscardLogger(), ui.NewPrinter(&buf, &buf), true, true)
						}
						rs := &hlib.RunSpec{Mode: mode, CompletionTimeout: time.Second, Output: out,
							Opts: options.RunOptions{MaxDuration: 2300 * time.Millisecond, Concurrency: 1, MaxFailures: 100}}
						if interactive {
							rs.LogFile = filepath.Join(dir, "scenario.log") // views are printed only when scenario logs go to a file
						}
						if ending == "limit" {
							rs.Opts.MaxIterations = 5
						}
						if mode == "constant" {
							rs.Flags = map[string]string{"rate": "1/100ms", "distribution": "none"}
							if pattern == "slow-bodies-dropped-requests" {
								rs.Flags["rate"] = "2/100ms"
							}
						}
						rs.ScenarioFn = func(t *f1testing.T) f1testing.RunFn {
							if pattern == "setup-fails" {
								t.FailNow()
							}
							if pattern == "teardown-fails" {
								t.Cleanup(func() { t.FailNow() })
							}
							n := 0
							return func(t *f1testing.T) {
								n++
								switch {
								case pattern == "slow-bodies-dropped-requests":
									vtime.Sleep(250 * time.Millisecond)
								case mode == "users":
									vtime.Sleep(100 * time.Millisecond)
								}
								if pattern == "every-second-fails" && n%2 == 0 {
									t.Fail()
								}
							}
						}
						res := hlib.RunOnce(rs, -1, 0, 60*time.Second)
						if res.BuildErr != nil || res.Out.Status != vrt.StOK {
							r.Fail("C19/run-broken", "whole-run", fmt.Sprint(res.BuildErr, res.Out.Status, res.Out.Crash, res.Out.Detail), input)
							continue
						}
						total := res.Success + res.Fail + res.Dropped
						if interactive {
							text := ansi.ReplaceAllString(buf.String(), "")
							if m := reStarted.FindStringSubmatch(text); m == nil || m[1] != strconv.FormatUint(res.Success+res.Fail, 10) {
								r.Fail("C19/summary-started", "whole-run", fmt.Sprintf("started line %v, the result has %d", m, res.Success+res.Fail), input)
							}
							checkLine(r, text, reSucc, "successful", res.Success, total, input)
							checkLine(r, text, reFail, "failed", res.Fail, total, input)
							checkLine(r, text, reDrop, "dropped", res.Dropped, total, input)
							if hasFailed := strings.Contains(text, "Load Test Failed"); hasFailed != res.Failed || strings.Contains(text, "Load Test Passed") == res.Failed {
								r.Fail("C19/banner", "whole-run", fmt.Sprintf("banner says failed=%v, Result.Failed()=%v", hasFailed, res.Failed), input)
							}
							var ps, pd, pf uint64
							lines := reProg.FindAllStringSubmatch(text, -1)
							for _, m := range lines {
								s, _ := strconv.ParseUint(m[1], 10, 64)
								d, _ := strconv.ParseUint(m[2], 10, 64) // "" (no dropped part) parses as 0
								f, _ := strconv.ParseUint(m[3], 10, 64)
								if s < ps || d < pd || f < pf || s > res.Success || d > res.Dropped || f > res.Fail {
									r.Fail("C19/progress-line", "whole-run", fmt.Sprintf("progress line %q after one with ✔%d ⦸%d ✘%d; the run ended with ✔%d ⦸%d ✘%d", m[0], ps, pd, pf, res.Success, res.Dropped, res.Fail), input)
								}
								ps, pd, pf = s, d, f
							}
							if ending == "duration" && pattern != "setup-fails" && len(lines) < 2 {
								r.Fail("C19/progress-line", "whole-run-missing", fmt.Sprintf("%d progress lines in a run of 2.3 s", len(lines)), input)
							}
						} else {
							var last *logged
							var ps, pd, pf uint64
							nprog := 0
							for _, line := range bytes.Split(bytes.TrimSpace(buf.Bytes()), []byte("\n")) {
								var lg logged
								if json.Unmarshal(line, &lg) != nil {
									continue
								}
								switch lg.Msg {
								case "Load Test Passed", "Load Test Failed":
									l := lg
									last = &l
								case "progress":
									nprog++
									st := lg.Stats
									if st.Successful < ps || st.Dropped < pd || st.Failed < pf || st.Successful > res.Success || st.Dropped > res.Dropped || st.Failed > res.Fail {
										r.Fail("C19/progress-record", "whole-run", fmt.Sprintf("progress record %+v after ✔%d ⦸%d ✘%d; the run ended with ✔%d ⦸%d ✘%d", st, ps, pd, pf, res.Success, res.Dropped, res.Fail), input)
									}
									ps, pd, pf = st.Successful, st.Dropped, st.Failed
								}
							}
							if last == nil {
								r.Fail("C19/structured", "whole-run-no-summary-record", buf.String(), input)
								continue
							}
							if (last.Msg == "Load Test Failed") != res.Failed {
								r.Fail("C19/structured-banner", "whole-run", fmt.Sprintf("message %q, Result.Failed()=%v", last.Msg, res.Failed), input)
							}
							if last.Stats.Successful != res.Success || last.Stats.Failed != res.Fail || last.Stats.Dropped != res.Dropped || last.Stats.Started != res.Success+res.Fail {
								r.Fail("C19/structured-counts", "whole-run", fmt.Sprintf("logged %+v, the result has ✔%d ⦸%d ✘%d", last.Stats, res.Success, res.Dropped, res.Fail), input)
							}
							if ending == "duration" && pattern != "setup-fails" && nprog < 2 {
								r.Fail("C19/progress-record", "whole-run-missing", fmt.Sprintf("%d progress records in a run of 2.3 s", nprog), input)
							}
						}
						r.Distinct(fmt.Sprintf("%s %s %s %v", mode, pattern, ending, interactive))
					}
				}
			}
		}
	}}
}

func suites(tier string) []hlib.Suite {
	thorough = tier != "quick"
	return []hlib.Suite{viewsSuite(), resultSuite(), wholeRunSuite()}
}

func main() { hlib.EnumMain("C19", suites) }
