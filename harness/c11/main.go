// Harness for C11 (E2): the gaussian profile delivers the configured volume
// per window (scaled by the window's weight over the mean weight), carries
// fractional rates instead of losing them, never goes negative and peaks at
// the configured peak.
package main

import (
	"fmt"
	"math"
	"strings"
	"time"

	"github.com/form3tech-oss/f1/v2/internal/trigger/gaussian"
	"github.com/form3tech-oss/f1/v2/internal/verifharness/hlib"
)

type rf struct{ repeat, freq time.Duration }

var (
	volumes = []float64{0, 1, 7, 100, 1000, 86400}
	windows = []rf{{time.Minute, time.Second}, {time.Minute, 30 * time.Second}, {10 * time.Minute, 10 * time.Second}, {time.Hour, time.Minute}, {24 * time.Hour, time.Minute},
		// windows that do not divide 24 h (the window grid is anchored at Go's zero time, not at the Unix epoch or at midnight)
		{7 * time.Hour, 10 * time.Minute}, {168 * time.Hour, time.Hour},
		// sub-second ticks (with the standard deviations f, 3f, R/10 ... the bell is narrower than a second)
		{10 * time.Second, 100 * time.Millisecond}, {3 * time.Second, 250 * time.Millisecond},
		// window lengths that are not exact in binary fractions of an hour / a second (with the eight-weight list: every position of the weight cycle)
		{50 * time.Minute, 5 * time.Minute}, {7 * time.Minute, time.Minute}, {5 * time.Second, 500 * time.Millisecond}, {100 * time.Millisecond, 10 * time.Millisecond}}
	weights = [][]float64{nil, {1}, {2}, {0.25}, {1, 2}, {2, 1, 0.5}, {0, 1}, {1, 1, 1, 1, 1, 1, 1}, {1, 1, 1, 2}, {1, 2, 3, 4, 5, 6, 7, 8}, {1, 2, 3, 4, 5, 6, 7}} // (seven different weights: one per day of a week of 24 h windows)
)

func pdf(x, mu, sigma float64) float64 {
	return math.Exp(-(x-mu)*(x-mu)/(2*sigma*sigma)) / (sigma * math.Sqrt(2*math.Pi))
}
func cdf(x, mu, sigma float64) float64 { return 0.5 * math.Erfc(-(x-mu)/(sigma*math.Sqrt2)) }

func wstr(w []float64) string {
	var p []string
	for _, x := range w {
		p = append(p, fmt.Sprint(x))
	}
	return strings.Join(p, ",")
}

func suite(quick bool) hlib.Suite {
	return hlib.Suite{Name: fmt.Sprintf("gaussian/parameter-grid/quick=%v", quick), Run: func(r *hlib.Rec) {
		for _, wn := range windows {
			R, f := wn.repeat, wn.freq
			if quick && R == 168*time.Hour {
				continue
			}
			// on a tick, and between ticks: a third, three quarters and exactly half of a tick further
			peaks := []time.Duration{0, R / 4, R / 2, 14 * R / 24, R - f, (R / 4).Truncate(f) + f/3, (R / 2).Truncate(f) + 3*f/4, (14 * R / 24).Truncate(f) + f/2}
			sigmas := []time.Duration{f, 3 * f, R / 10, R / 4, R, 10 * R, 100 * R, 1000 * R, 10000 * R}
			vols := volumes
			if !quick {
				vols = append(append([]float64{}, volumes...), 3, 50, 12345, 1e6, 1e8)
			}
			for _, vol := range vols {
				for _, peak := range peaks {
					if peak%f == 0 || peak < f {
						peak = peak.Truncate(f) // a tick exactly at the peak
					}
					for _, sigma := range sigmas {
						if sigma < f {
							continue
						}
						for _, w := range weights {
							if !r.Mine() {
								continue
							}
							if r.Expired() {
								return
							}
							checkConfig(r, vol, R, f, peak, sigma, w)
						}
					}
				}
			}
		}
		r.Sample(map[string]any{"volumes": volumes, "windows": fmt.Sprint(windows), "weights": fmt.Sprint(weights), "peaks": "0,R/4,R/2,14R/24,R-f and three between ticks (+f/3, +3f/4, +f/2)", "sigmas": "f,3f,R/10,R/4,R,10R,100R,1000R,10000R"})
	}}
}

func checkConfig(r *hlib.Rec, vol float64, R, f, peak, sigma time.Duration, w []float64) {
	input := fmt.Sprintf("volume=%v repeat=%s frequency=%s peak=%s stddev=%s weights=[%s]", vol, R, f, peak, sigma, wstr(w))
	r.SampleCase(input)
	rates, err := gaussian.CalculateGaussianRate(vol, 0, R, f, peak, sigma, wstr(w), "none")
	if err != nil {
		r.Fail("C11/rejected", "valid-config", err.Error(), input)
		return
	}
	scaled, err := gaussian.NewCalculator(peak, sigma, f, w, vol*1e6, R)
	if err != nil {
		r.Fail("C11/rejected", "valid-config", err.Error(), input)
		return
	}
	nWin := len(w)
	if nWin == 0 {
		nWin = 2
	}
	mean := 1.0
	if len(w) > 0 {
		mean = 0
		for _, x := range w {
			mean += x
		}
		mean /= float64(len(w))
	}
	base := time.Date(2024, 1, 1, 0, 0, 0, 0, time.UTC).Truncate(R * time.Duration(nWin))
	ticks := int(R / f)
	mu, sg := float64(peak), float64(sigma)
	// discretisation bracket
	S := 0.0
	for k := 0; k < ticks; k++ {
		S += float64(f) * pdf(float64(time.Duration(k)*f), mu, sg)
	}
	Ilo := cdf(float64(R-f), mu, sg) - cdf(0, mu, sg)
	Ihi := cdf(float64(R), mu, sg) - cdf(0, mu, sg)
	var cumE int64
	var cumS float64
	for win := 0; win < nWin; win++ {
		ww := 1.0
		if len(w) > 0 {
			ww = w[win]
		}
		var total int64
		var peakVal, maxVal int64 = -1, 0
		for k := 0; k < ticks; k++ {
			t := base.Add(time.Duration(win)*R + time.Duration(k)*f)
			v := int64(rates.Rate(t))
			sv := scaled.For(t)
			r.Eval()
			if v < 0 {
				r.Fail("C11/negative", "negative", fmt.Sprintf("window %d tick %d: %d", win, k, v), input)
			}
			cumE += v
			cumS += float64(sv) / 1e6
			total += v
			if lo, hi := int64(math.Floor(cumS-1e-4)), int64(math.Floor(cumS+1e-4)); cumE < lo || cumE > hi {
				r.Fail("C11/carry", "fraction-lost-or-invented", fmt.Sprintf("window %d tick %d: %d requested so far, the real-valued rates sum to %.6f", win, k, cumE, cumS), input)
				return
			}
			// the tick(s) nearest the configured peak (two when the peak is exactly half-way)
			if d := time.Duration(k)*f - peak; d > -f && d < f && (2*d <= f && 2*d >= -f) {
				if v > peakVal {
					peakVal = v
				}
			}
			if v > maxVal {
				maxVal = v
			}
		}
		if peakVal >= 0 && maxVal > peakVal+1 {
			r.Fail("C11/peak", "higher-elsewhere", fmt.Sprintf("window %d: a tick requests %d, the tick at the peak %d", win, maxVal, peakVal), input)
		}
		want := vol * ww / mean
		lo := want*S/math.Max(S, Ihi) - 1 - 1e-6*want
		hi := want*S/math.Min(S, Ilo) + 1 + 1e-6*want
		if float64(total) < lo || float64(total) > hi {
			r.Fail("C11/volume", "outside-discretisation-bracket", fmt.Sprintf("window %d (weight %v of mean %v): %d requested, configured %.3f, bracket [%.3f, %.3f]", win, ww, mean, total, want, lo, hi), input)
		}
	}
	r.Distinct(fmt.Sprintf("ticks=%d peak=%s sigma/R=%.2f w=%d vol=%v", ticks, peak, float64(sigma)/float64(R), len(w), vol > 0))
}

// spellingSuite: a weights string with empty elements (a trailing, leading or doubled comma) either is rejected or
// means the list of the weights it does spell: the empty elements are not windows of weight zero.
func spellingSuite() hlib.Suite {
	return hlib.Suite{Name: "gaussian/weights-string-spellings", Run: func(r *hlib.Rec) {
		R, f := time.Hour, time.Minute
		for _, w := range [][]float64{{1, 3}, {2}, {1, 2, 3}, {0.5, 1.5}} {
			clean := wstr(w)
			spellings := []string{clean + ",", "," + clean, strings.Replace(clean, ",", ",,", 1), clean + ",,", " " + clean}
			for _, sp := range spellings {
				if sp == clean {
					continue
				}
				for _, vol := range []float64{100000, 777} {
					r.Eval()
					input := fmt.Sprintf("volume=%v repeat=%s frequency=%s peak=30m stddev=10m weights=%q (the list it spells: %q)", vol, R, f, sp, clean)
					r.SampleCase(input)
					ref, err := gaussian.CalculateGaussianRate(vol, 0, R, f, 30*time.Minute, 10*time.Minute, clean, "none")
					if err != nil {
						r.Fail("C11/rejected", "valid-config", err.Error(), input)
						continue
					}
					got, err := gaussian.CalculateGaussianRate(vol, 0, R, f, 30*time.Minute, 10*time.Minute, sp, "none")
					if err != nil {
						r.Distinct("rejected " + sp)
						continue // rejecting the spelling is fine
					}
					base := time.Date(2024, 1, 1, 0, 0, 0, 0, time.UTC).Truncate(R * time.Duration(12))
					for win := 0; win < 2*len(w)+2; win++ {
						var a, b int64
						for k := 0; k < int(R/f); k++ {
							t := base.Add(time.Duration(win)*R + time.Duration(k)*f)
							a += int64(ref.Rate(t))
							b += int64(got.Rate(t))
							r.Step()
						}
						if a != b {
							r.Fail("C11/volume", "weights-spelling-changes-the-windows", fmt.Sprintf("window %d: %d requested, the same list spelled %q requests %d", win, b, clean, a), input)
							break
						}
					}
					r.Distinct("accepted " + sp)
				}
			}
		}
	}}
}

func suites(tier string) []hlib.Suite { return []hlib.Suite{suite(tier == "quick"), spellingSuite()} }

func main() { hlib.EnumMain("C11", suites) }
