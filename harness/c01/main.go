// Harness for C01: every executed iteration is counted exactly once.
//
// Component scenarios: W recorder threads drive the real
// workers.ActiveScenario.Run / RecordDroppedIteration (which record into the
// real progress.Stats and metrics.Metrics) with scripted outcomes, one
// snapshotter thread calls the real run.Result.SnapshotProgress k times, main
// joins everything and calls GetTotals. Oracle: the final Result.Snapshot()
// counts and the Prometheus sample counts equal the ground truth.
package main

import (
	"errors"
	"fmt"
	"strconv"
	"strings"
	"time"

	"github.com/form3tech-oss/f1/v2/internal/verifshim/vatomic"
	"github.com/form3tech-oss/f1/v2/internal/verifshim/vatomict"
	"github.com/form3tech-oss/f1/v2/internal/verifshim/vctx"
	"github.com/form3tech-oss/f1/v2/internal/verifshim/vtime"

	"github.com/prometheus/client_golang/prometheus"

	"github.com/form3tech-oss/f1/v2/internal/metrics"
	"github.com/form3tech-oss/f1/v2/internal/options"
	"github.com/form3tech-oss/f1/v2/internal/progress"
	"github.com/form3tech-oss/f1/v2/internal/run"
	"github.com/form3tech-oss/f1/v2/internal/trigger/api"
	"github.com/form3tech-oss/f1/v2/internal/trigger/file"
	"github.com/form3tech-oss/f1/v2/internal/ui"
	"github.com/form3tech-oss/f1/v2/internal/verifharness/hlib"
	"github.com/form3tech-oss/f1/v2/internal/verifshim/vrt"
	"github.com/form3tech-oss/f1/v2/internal/verifshim/vsync"
	"github.com/form3tech-oss/f1/v2/internal/workers"
	"github.com/form3tech-oss/f1/v2/pkg/f1/scenarios"
	f1testing "github.com/form3tech-oss/f1/v2/pkg/f1/testing"
)

const (
	oSuccess = 's'
	oFail    = 'f'
	oDrop    = 'd'
	oHelper  = 'h' // the body passes, but a helper goroutine it started marks the handle failed at some later point
)

type counts struct{ s, f, d uint64 }

type world struct {
	res    *run.Result
	reg    *prometheus.Registry
	truth  counts
	either uint64 // iterations whose outcome depends on when the helper's Fail lands
}

var w *world

func component(scripts []string, snaps int) vrt.Scenario {
	return componentWith(scripts, snaps, nil, false)
}

// componentPlain: writes to plain shared memory (fields, elements) in the
// rewritten code are scheduling points too, and x.f++ / x.f += v are split into
// read, point, write: what two goroutines updating a counter without
// synchronisation can do to each other. Memo off, for the same reason as below.
func componentPlain(scripts []string, snaps int) vrt.Scenario {
	return componentWith(scripts, snaps, nil, true)
}

// componentLabelled: with static metric labels configured, and the calls into
// the Prometheus vectors as scheduling points (so that what a recorder prepared
// for its call can be disturbed by another recorder before the call is made).
// The happens-before memo is off: state shared through plain memory between a
// recorder's preparation and its call is not part of the memo's key.
func componentLabelled(scripts []string, snaps int, labels map[string]string) vrt.Scenario {
	return componentWith(scripts, snaps, labels, false)
}

func componentWith(scripts []string, snaps int, labels map[string]string, plain bool) vrt.Scenario {
	name := fmt.Sprintf("component/scripts=%s/snapshots=%d", strings.Join(scripts, ","), snaps)
	if plain {
		name += "/plain-memory-writes-are-scheduling-points"
	}
	if labels != nil {
		name += fmt.Sprintf("/static-labels=%d/external-calls-are-scheduling-points", len(labels))
	}
	body := func() {
		stats := &progress.Stats{}
		reg := prometheus.NewRegistry()
		m := metrics.NewInstance(reg, true, labels)
		res := run.NewResult(options.RunOptions{}, nil, stats)
		cur := &world{res: res, reg: reg}
		w = cur
		sc := &scenarios.Scenario{Name: "s"}
		as := workers.NewActiveScenario(sc, m, stats, hlib.DiscardLogger(), hlib.DiscardLogrus())
		per := make([]counts, len(scripts))
		// one group per recorder: a group shared by two recorders would be reused by one while the other's Wait has
		// been released but has not returned yet (a misuse of sync.WaitGroup in the harness, which the faithful shim
		// turns into the panic the real one raises)
		helpers := make([]vsync.WaitGroup, len(scripts))
		sc.RunFn = func(t *f1testing.T) {
			// iteration id = "<worker>.<index>"; the script says how it ends
			parts := strings.SplitN(t.Iteration, ".", 2)
			wi, _ := strconv.Atoi(parts[0])
			ii, _ := strconv.Atoi(parts[1])
			switch scripts[wi][ii] {
			case oFail:
				t.Fail()
			case oHelper:
				helpers[wi].Add(1)
				vrt.GoNamed("helper", func() { defer helpers[wi].Done(); t.Fail() })
			}
		}
		var wg vsync.WaitGroup
		wg.Add(len(scripts) + 1)
		for i, script := range scripts {
			i, script := i, script
			vrt.GoNamed(fmt.Sprintf("rec%d", i), func() {
				defer wg.Done()
				st := as.VerifNewIterationState()
				for j := 0; j < len(script); j++ {
					switch script[j] {
					case oDrop:
						per[i].d++
						as.RecordDroppedIteration()
					case oSuccess:
						per[i].s++
						st.VerifT().Reset(fmt.Sprintf("%d.%d", i, j))
						as.Run(st)
					case oFail:
						per[i].f++
						st.VerifT().Reset(fmt.Sprintf("%d.%d", i, j))
						as.Run(st)
					case oHelper:
						cur.either++
						st.VerifT().Reset(fmt.Sprintf("%d.%d", i, j))
						as.Run(st)
						helpers[i].Wait() // the next iteration on this handle starts clean
					}
				}
			})
		}
		vrt.GoNamed("snap", func() {
			defer wg.Done()
			for k := 0; k < snaps; k++ {
				res.SnapshotProgress(time.Second)
			}
		})
		wg.Wait()
		res.GetTotals()
		for _, c := range per {
			cur.truth.s += c.s
			cur.truth.f += c.f
			cur.truth.d += c.d
		}
	}
	post := func(o *vrt.Outcome) {
		classify(o, "C01")
		if o.Status != vrt.StOK {
			return
		}
		snap := w.res.Snapshot()
		got := counts{snap.SuccessfulIterationDurations.Count, snap.FailedIterationDurations.Count, snap.DroppedIterationCount}
		mc := gatherCounts(w.reg)
		if w.either > 0 {
			// a helper goroutine's late Fail makes the iteration's own outcome a matter of timing;
			// what must hold: it is counted once, and the result and the metrics agree on how
			if got.s+got.f != w.truth.s+w.truth.f+w.either || got.s < w.truth.s || got.f < w.truth.f || got.d != w.truth.d {
				o.Fail("C01/final-counts", "helper:miscounted", fmt.Sprintf("final result counts %v with %d iterations of timing-dependent outcome on top of ground truth %v", got, w.either, w.truth))
			}
			if mc != got {
				o.Fail("C01/metric-counts", "helper:metrics-disagree-with-result", fmt.Sprintf("exported iteration metric sample counts %v, final result counts %v: one iteration was classified twice, differently", mc, got))
			}
			return
		}
		if got != w.truth {
			o.Fail("C01/final-counts", diffKey(got, w.truth), fmt.Sprintf("final result counts {success,fail,dropped}=%v, ground truth %v", got, w.truth))
		}
		if mc != w.truth {
			o.Fail("C01/metric-counts", diffKey(mc, w.truth), fmt.Sprintf("exported iteration metric sample counts %v, ground truth %v", mc, w.truth))
		}
	}
	helper := strings.Contains(strings.Join(scripts, ""), string(rune(oHelper)))
	return vrt.Scenario{Name: name, Body: body, Post: post, Memo: labels == nil && !plain, Horizon: time.Minute, Setup: func() {
		vatomict.Active = helper
		vrt.ExtCalls = labels != nil
		vrt.PlainPoints = plain
	}}
}

// poolStop: the part of a run's end that decides "all iterations complete": a
// trigger pool with requests still pending is stopped, the caller waits for
// PoolManager.WaitForCompletion (as Run.run does) and then takes the totals.
// Whatever the pool reports dropped must be in those totals: nothing may be
// recorded after completion has been announced.
type stopWorld struct {
	stats             *progress.Stats
	reg               *prometheus.Registry
	atCompletion      uint64
	startedAtComplete uint64
}

var sw *stopWorld

func poolStop(workersN, requested int) vrt.Scenario {
	name := fmt.Sprintf("pool-stop/workers=%d/requested=%d/totals-taken-when-the-pool-announces-completion", workersN, requested)
	body := func() {
		x := &stopWorld{stats: &progress.Stats{}, reg: prometheus.NewRegistry()}
		sw = x
		var gate vatomic.Bool
		m := metrics.NewInstance(x.reg, true, nil)
		begun := 0
		sc := &scenarios.Scenario{Name: "s", RunFn: func(*f1testing.T) {
			begun++
			vrt.WaitUntil("gate", func() bool { return gate.Peek() })
		}}
		as := workers.NewActiveScenario(sc, m, x.stats, hlib.DiscardLogger(), hlib.DiscardLogrus())
		mgr := workers.New(0, as)
		pool := mgr.NewTriggerPool(workersN)
		ctx, cancel := vctx.WithCancel(vctx.Background())
		defer cancel()
		wctx := pool.Start(ctx)
		triggerReturned := hlib.StopWhenDone(wctx, pool)
		pool.Trigger(wctx, requested) // the workers take one each and block in it; the rest stays pending
		vrt.WaitUntil("workers-busy", func() bool { return begun >= workersN })
		cancel() // the run ends: what is pending is discarded and reported dropped
		gate.Store(true)
		triggerReturned()
		vrt.Recv(mgr.WaitForCompletion())
		tot := x.stats.Total()
		x.atCompletion = tot.DroppedIterationCount
		x.startedAtComplete = tot.SuccessfulIterationDurations.Count + tot.FailedIterationDurations.Count
	}
	post := func(o *vrt.Outcome) {
		classify(o, "C01")
		if o.Status != vrt.StOK {
			return
		}
		final := sw.stats.Total().DroppedIterationCount
		_, _, md := hlib.IterationCounts(sw.reg)
		if sw.atCompletion != final || md != final {
			o.Fail("C01/final-counts", "dropped-recorded-after-completion", fmt.Sprintf("when the pool announced completion the totals had %d dropped; afterwards %d (metric %d): %d iterations were reported dropped after the final totals were taken", sw.atCompletion, final, md, final-sw.atCompletion))
		}
		if sw.startedAtComplete+final != uint64(requested) {
			o.Fail("C01/final-counts", "pool-stop:not-conserved", fmt.Sprintf("%d requested, %d started + %d dropped", requested, sw.startedAtComplete, final))
		}
		o.Sig = fmt.Sprintf("started=%d dropped=%d", sw.startedAtComplete, final)
	}
	return vrt.Scenario{Name: name, Body: body, Post: post, Memo: true, Horizon: time.Minute, Setup: func() { vatomict.Active = false }}
}

// stagesStop: the same question one level up, for config-file mode. The caller's
// context ends in the middle of a stage while a tick is superseding pending work
// (and reporting it dropped). Run.run takes a run as complete when the trigger
// function has returned and the pool manager announces completion: nothing may be
// reported after that.
func stagesStop() vrt.Scenario {
	name := "stages-stop/context-ends-mid-stage/totals-taken-when-trigger-returned-and-pool-complete"
	body := func() {
		x := &stopWorld{stats: &progress.Stats{}, reg: prometheus.NewRegistry()}
		sw = x
		var gate vatomic.Bool
		m := metrics.NewInstance(x.reg, true, nil)
		sc := &scenarios.Scenario{Name: "s", RunFn: func(*f1testing.T) {
			vrt.WaitUntil("gate", func() bool { return gate.Peek() })
		}}
		as := workers.NewActiveScenario(sc, m, x.stats, hlib.DiscardLogger(), hlib.DiscardLogrus())
		mgr := workers.New(0, as)
		stage := file.VerifStage{Rate: func(time.Time) int { return 3 }, StageDuration: 2 * time.Second, IterationDuration: 100 * time.Millisecond}
		ctx, cancel := vctx.WithCancel(vctx.Background())
		defer cancel()
		returned := false
		vrt.GoNamed("trigger", func() {
			file.VerifStagesWorkerOf([]file.VerifStage{stage})(ctx, ui.NewDiscardOutput(), mgr, options.RunOptions{Concurrency: 1})
			returned = true
		})
		vtime.Sleep(200 * time.Millisecond) // ticks at 0 and 100 ms; the one at 200 ms is due now
		cancel()
		gate.Store(true)
		vrt.WaitUntil("trigger-returned", func() bool { return returned })
		vrt.Recv(mgr.WaitForCompletion())
		tot := x.stats.Total()
		x.atCompletion = tot.DroppedIterationCount
		x.startedAtComplete = tot.SuccessfulIterationDurations.Count + tot.FailedIterationDurations.Count
	}
	post := func(o *vrt.Outcome) {
		classify(o, "C01")
		if o.Status != vrt.StOK {
			return
		}
		final := sw.stats.Total().DroppedIterationCount
		_, _, md := hlib.IterationCounts(sw.reg)
		if sw.atCompletion != final || md != final {
			o.Fail("C01/final-counts", "dropped-recorded-after-completion/config-file-stage", fmt.Sprintf("when the trigger had returned and the pool announced completion the totals had %d dropped; afterwards %d (metric %d)", sw.atCompletion, final, md))
		}
		o.Sig = fmt.Sprintf("started=%d dropped=%d", sw.startedAtComplete, final)
	}
	return vrt.Scenario{Name: name, Body: body, Post: post, Memo: true, Horizon: time.Minute, Setup: func() { vatomict.Active = false }}
}

func labelsN(n int) map[string]string {
	m := map[string]string{}
	for i := 0; i < n; i++ {
		m[fmt.Sprintf("k%02d", i)] = fmt.Sprintf("v%02d", i)
	}
	return m
}

func diffKey(got, want counts) string {
	var p []string
	cmp := func(n string, g, w uint64) {
		switch {
		case g < w:
			p = append(p, n+"-lost")
		case g > w:
			p = append(p, n+"-overcounted")
		}
	}
	cmp("success", got.s, want.s)
	cmp("fail", got.f, want.f)
	cmp("dropped", got.d, want.d)
	return strings.Join(p, "+")
}

// classify turns scheduler-level outcomes into violations.
func classify(o *vrt.Outcome, prop string) {
	switch o.Status {
	case vrt.StDeadlock:
		o.Fail(prop+"/deadlock", "component", "deadlock: "+o.Detail)
	case vrt.StCrash:
		o.Fail(prop+"/crash", "component", o.Crash)
	case vrt.StHorizon:
		o.Fail(prop+"/no-return", "component", "did not finish by the horizon: "+o.Detail)
	}
}

func gatherCounts(reg *prometheus.Registry) counts {
	var c counts
	mfs, err := reg.Gather()
	if err != nil {
		// (for instance two series with the same label values: the exported metrics are unusable)
		return counts{^uint64(0), ^uint64(0), ^uint64(0)}
	}
	for _, mf := range mfs {
		if mf.GetName() != "form3_loadtest_iteration" {
			continue
		}
		for _, m := range mf.GetMetric() {
			var result, stage string
			for _, l := range m.GetLabel() {
				if l.GetName() == "result" {
					result = l.GetValue()
				}
				if l.GetName() == "stage" {
					stage = l.GetValue()
				}
			}
			if stage != "iteration" {
				continue
			}
			n := m.GetSummary().GetSampleCount()
			switch result {
			case "success":
				c.s += n
			case "fail":
				c.f += n
			case "dropped":
				c.d += n
			}
		}
	}
	return c
}

// wholeRun: the real Run.Do with progress ticks landing while iterations
// complete and at the very end of the run; scripted outcomes per iteration id.
type runWorld struct {
	pass, fail uint64
	requested  uint64 // constant mode: what the (harness's) rate function has asked for so far
	res        *run.Result
	reg        *prometheus.Registry
	open       int // bodies executing now
	// bodies still executing when Do returned (0: the run returned with all iterations complete)
	openAtReturn int
}

var rw *runWorld

// variations of a whole run, set around a call of wholeRun (see usersFirst / interrupted)
var (
	runUsersFirst bool          // config-file mode: a users stage of 300 ms before the constant stage
	runCancelAt   time.Duration // > 0: the caller cancels then
)

// usersFirst: a config file whose first stage is a users stage (which waits for the pool's completion when
// it ends) followed by a constant stage whose iterations are in flight when the plan ends. Setup's cleanup
// takes 600 ms, so every iteration has finished when Do returns.
func usersFirst(rate string, maxDur time.Duration, conc int, bodySleep time.Duration) vrt.Scenario {
	runUsersFirst = true
	defer func() { runUsersFirst = false }()
	return wholeRun("file", rate, maxDur, conc, bodySleep, 0)
}

// interrupted: the caller cancels while iterations are in flight; they finish within the completion timeout
// (and setup's cleanup takes 600 ms on top).
func interrupted(mode, rate string, cancelAt time.Duration, conc int, bodySleep time.Duration) vrt.Scenario {
	runCancelAt = cancelAt
	defer func() { runCancelAt = 0 }()
	return wholeRun(mode, rate, 5*time.Second, conc, bodySleep, 0)
}

// second: two runs are constructed on one metrics instance, an earlier one is
// executed to its end, then the run under observation.
func wholeRun(mode, rate string, maxDur time.Duration, conc int, bodySleep time.Duration, limit uint64, second ...bool) vrt.Scenario {
	name := fmt.Sprintf("run/%s/rate=%s/maxdur=%s/c=%d/body=%s/limit=%d", mode, rate, maxDur, conc, bodySleep, limit)
	if len(second) > 0 {
		name += "/after-an-earlier-run-built-on-the-same-metrics"
	}
	usersFirst, cancelAt := runUsersFirst, runCancelAt
	if usersFirst {
		name += "/users-stage-first"
	}
	if cancelAt > 0 {
		name += fmt.Sprintf("/caller-cancels-at-%s", cancelAt)
	}
	body := func() {
		x := &runWorld{}
		rw = x
		rs := &hlib.RunSpec{Mode: mode, CompletionTimeout: time.Second,
			Opts: options.RunOptions{MaxDuration: maxDur, Concurrency: conc, MaxIterations: limit, IgnoreDropped: true}}
		if mode == "constant" {
			rs.Flags = map[string]string{"rate": rate, "distribution": "none"}
		}
		if mode == "file" {
			// one long constant stage; the run's own deadline ends it mid-stage
			rs.FileYAML = fmt.Sprintf("scenario: s\nlimits:\n  max-duration: %s\n  concurrency: %d\n  max-iterations: %d\n  ignore-dropped: true\nstages:\n- duration: 5s\n  mode: constant\n  rate: %s\n  jitter: 0\n  distribution: none\n", maxDur, conc, limit, rate)
		}
		if usersFirst {
			rs.FileYAML = fmt.Sprintf("scenario: s\nlimits:\n  max-duration: %s\n  concurrency: %d\n  max-iterations: %d\n  ignore-dropped: true\nstages:\n- duration: 300ms\n  mode: users\n- duration: 300ms\n  mode: constant\n  rate: %s\n  jitter: 0\n  distribution: none\n", maxDur, conc, limit, rate)
		}
		rs.ScenarioFn = func(t *f1testing.T) f1testing.RunFn {
			if usersFirst || cancelAt > 0 {
				t.Cleanup(func() { vtime.Sleep(600 * time.Millisecond) })
			}
			return func(t *f1testing.T) {
				id, _ := strconv.Atoi(t.Iteration)
				x.open++
				defer func() { x.open-- }()
				if bodySleep > 0 {
					vtime.Sleep(bodySleep)
				}
				// the outcome sequence: every second iteration fails, each in another way (marking the handle,
				// stopping the iteration, panicking with an error value, a runtime error, a string)
				switch id % 10 {
				case 0:
					x.fail++
					t.Fail()
				case 2:
					x.fail++
					t.FailNow()
				case 4:
					x.fail++
					panic(errors.New("iteration panics with an error value"))
				case 6:
					x.fail++
					var m map[string]int
					m["runtime error"] = id
				case 8:
					x.fail++
					panic("iteration panics with a string")
				default:
					x.pass++
				}
			}
		}
		var earlier *hlib.Built
		if len(second) > 0 {
			x.reg = prometheus.NewRegistry()
			rs.Metrics = metrics.NewInstance(x.reg, true, nil)
			e, err := rs.Build()
			if err != nil {
				panic(err)
			}
			earlier = e
		}
		b, err := rs.Build()
		if err != nil {
			panic(err)
		}
		if earlier != nil {
			if _, err := earlier.Run.Do(vctx.Background()); err != nil {
				panic(err)
			}
			x.pass, x.fail, x.requested = 0, 0, 0
		} else {
			x.reg = b.Reg
		}
		if mode == "constant" {
			// the same ticking worker, with a rate function of the harness that counts its requests
			var perTick int
			fmt.Sscanf(rate, "%d/", &perTick)
			unit, _ := time.ParseDuration(rate[strings.Index(rate, "/")+1:])
			b.Trigger.Trigger = api.NewIterationWorker(unit, func(time.Time) int {
				x.requested += uint64(perTick)
				return perTick
			})
		}
		ctx, cancel := vctx.WithCancel(vctx.Background())
		defer cancel()
		if cancelAt > 0 {
			vrt.GoNamed("caller-cancel", func() {
				vtime.Sleep(cancelAt)
				cancel()
			})
		}
		res, err := b.Run.Do(ctx)
		if err != nil {
			panic(err)
		}
		x.res = res
		x.openAtReturn = x.open
	}
	post := func(o *vrt.Outcome) {
		classify(o, "C01")
		if o.Status != vrt.StOK || rw.res == nil {
			return
		}
		var stopClock int64 = -1
		for li, ev := range o.Log {
			if stopClock < 0 && (strings.HasPrefix(ev, "display Interrupted") || strings.HasPrefix(ev, "display Max Duration Elapsed") || strings.HasPrefix(ev, "display Max Iterations")) {
				stopClock = o.LogClock[li]
			}
			if strings.HasPrefix(ev, "display Active tests not completed") && (rw.openAtReturn > 0 || stopClock < 0 || o.LogClock[li]-stopClock >= int64(time.Second)) {
				// the statement is about runs that return with all iterations complete: not about a run that sat
				// out its completion timeout (1 s here) and took its totals with an iteration still in flight
				o.Sig = "completion-timeout"
				return
			}
		}
		snap := rw.res.Snapshot()
		got := counts{snap.SuccessfulIterationDurations.Count, snap.FailedIterationDurations.Count, 0}
		want := counts{rw.pass, rw.fail, 0}
		if got != want {
			o.Fail("C01/final-counts", "run:"+diffKey(got, want), fmt.Sprintf("whole run: final result {success,fail}={%d %d}, the bodies passed %d and failed %d times", got.s, got.f, want.s, want.f))
		}
		ms, mf, md := hlib.IterationCounts(rw.reg)
		if ms != want.s || mf != want.f {
			o.Fail("C01/metric-counts", "run:"+diffKey(counts{ms, mf, 0}, want), fmt.Sprintf("whole run: exported metric {success,fail}={%d %d}, the bodies passed %d and failed %d times", ms, mf, want.s, want.f))
		}
		if md != snap.DroppedIterationCount {
			o.Fail("C01/metric-counts", "run:dropped", fmt.Sprintf("whole run: exported metric has %d dropped, the result reports %d", md, snap.DroppedIterationCount))
		}
		// no more outcomes than requests: every request ends as at most one of started or dropped (the harness's
		// own rate function counts what was requested, in whatever schedule)
		if rw.requested > 0 {
			if total := want.s + want.f + snap.DroppedIterationCount; total > rw.requested {
				o.Fail("C01/final-counts", "run:more-outcomes-than-requests", fmt.Sprintf("whole run: %d passed + %d failed + %d dropped = %d outcomes, only %d iterations were ever requested: one was counted twice", want.s, want.f, snap.DroppedIterationCount, total, rw.requested))
			}
		}
		o.Sig = fmt.Sprintf("pass=%d fail=%d dropped=%d", want.s, want.f, md)
	}
	return vrt.Scenario{Name: name, Body: body, Post: post, Memo: true, Horizon: maxDur + 30*time.Second, MaxSteps: 60000, Delay: true, Setup: func() { vatomict.Active = false }}
}

func scenariosFor(tier string) []vrt.Scenario {
	var out []vrt.Scenario
	addRun := func(d int, sc vrt.Scenario) {
		if strings.Contains(sc.Name, "maxdur=1m23s") || strings.Contains(sc.Name, "maxdur=6m3s") {
			sc.MaxExec = 400 // minutes of virtual time per execution: the default schedule and its nearest neighbours
		}
		sc.Bound = d
		sc.Name += "/policy=delay"
		out = append(out, sc)
	}
	defer func() {}()
	if tier == "quick" {
		// the run ends exactly when a progress tick is due (deadline 1010ms - 10ms guard = 1s)
		addRun(2, wholeRun("constant", "1/500ms", 1010*time.Millisecond, 1, 0, 0))
		addRun(2, wholeRun("users", "", 1010*time.Millisecond, 1, 400*time.Millisecond, 0))
		addRun(1, wholeRun("constant", "2/500ms", 1010*time.Millisecond, 2, 30*time.Millisecond, 3))
		addRun(1, wholeRun("constant", "2/500ms", 1010*time.Millisecond, 1, 600*time.Millisecond, 0)) // with dropped iterations
		// the worker becomes idle exactly when the next tick supersedes what is pending
		addRun(2, wholeRun("constant", "2/500ms", 1260*time.Millisecond, 1, 500*time.Millisecond, 0))
		// config-file mode: the deadline ends the stage at the instant a tick supersedes pending work
		addRun(2, wholeRun("file", "3/100ms", 310*time.Millisecond, 1, 250*time.Millisecond, 0))
		addRun(0, wholeRun("constant", "2/100ms", 310*time.Millisecond, 2, 30*time.Millisecond, 0, true))
		addRun(0, wholeRun("users", "", 310*time.Millisecond, 2, 100*time.Millisecond, 3, true))
		addRun(0, usersFirst("2/100ms", 5*time.Second, 2, 150*time.Millisecond))
		// a run long enough for the progress cadence to change (every second for the first minute, then every ten
		// seconds): a snapshot after the change covers what was recorded since the one before it like any other
		addRun(0, wholeRun("constant", "3/1s", 83*time.Second, 2, 20*time.Millisecond, 0))
		addRun(1, interrupted("constant", "2/100ms", 250*time.Millisecond, 2, 150*time.Millisecond))
		addRun(0, interrupted("users", "", 250*time.Millisecond, 2, 150*time.Millisecond))
		// lean: one iteration, the progress tick and the end of the run at the same instant; three deviations
		addRun(2, wholeRun("constant", "1/1s", 1010*time.Millisecond, 1, 0, 0))
	} else {
		addRun(3, wholeRun("constant", "1/1s", 1010*time.Millisecond, 1, 0, 0))
		addRun(3, wholeRun("constant", "1/500ms", 1010*time.Millisecond, 1, 0, 0))
		addRun(3, wholeRun("users", "", 1010*time.Millisecond, 1, 400*time.Millisecond, 0))
		addRun(2, wholeRun("constant", "2/500ms", 1010*time.Millisecond, 2, 30*time.Millisecond, 3))
		addRun(2, wholeRun("constant", "1/500ms", 1500*time.Millisecond, 1, 600*time.Millisecond, 0))
		addRun(2, wholeRun("users", "", 2010*time.Millisecond, 2, 700*time.Millisecond, 0))
		addRun(2, wholeRun("constant", "2/500ms", 1010*time.Millisecond, 1, 600*time.Millisecond, 0)) // with dropped iterations
		addRun(3, wholeRun("constant", "2/500ms", 1260*time.Millisecond, 1, 500*time.Millisecond, 0))
		addRun(3, wholeRun("file", "3/100ms", 310*time.Millisecond, 1, 250*time.Millisecond, 0))
		addRun(2, wholeRun("constant", "3/500ms", 1260*time.Millisecond, 2, 500*time.Millisecond, 0))
		addRun(1, wholeRun("constant", "2/100ms", 310*time.Millisecond, 2, 30*time.Millisecond, 0, true))
		addRun(1, wholeRun("users", "", 310*time.Millisecond, 2, 100*time.Millisecond, 3, true))
		addRun(1, usersFirst("2/100ms", 5*time.Second, 2, 150*time.Millisecond))
		addRun(0, wholeRun("constant", "3/1s", 83*time.Second, 2, 20*time.Millisecond, 0))
		addRun(0, wholeRun("users", "", 6*time.Minute+3*time.Second, 1, 900*time.Millisecond, 0)) // across the second cadence change (five minutes) too
		addRun(2, interrupted("constant", "2/100ms", 250*time.Millisecond, 2, 150*time.Millisecond))
		addRun(1, interrupted("users", "", 250*time.Millisecond, 2, 150*time.Millisecond))
	}
	add := func(b int, snaps int, scripts ...string) {
		sc := component(scripts, snaps)
		sc.Bound = b
		out = append(out, sc)
	}
	for _, c := range [][2]int{{1, 3}, {2, 4}} {
		sc := poolStop(c[0], c[1])
		sc.Bound = 2
		if tier != "quick" {
			sc.Bound = 3
		}
		out = append(out, sc)
	}
	{
		sc := stagesStop()
		sc.Weight = 4
		sc.Bound = 2
		if tier != "quick" {
			sc.Bound = 3
		}
		out = append(out, sc)
	}
	if tier == "quick" {
		add(2, 1, "s")
		add(2, 1, "f")
		add(2, 1, "sd", "f")
		add(2, 2, "ss")
		add(2, 1, "sf", "fs")
		add(2, 2, "s", "s")
		add(2, 1, "d", "s", "f")
		out = append(out, func() vrt.Scenario {
			sc := componentLabelled([]string{"s", "f"}, 0, map[string]string{"env": "x"})
			sc.Bound = 2
			return sc
		}(), func() vrt.Scenario {
			sc := componentLabelled([]string{"sd", "f"}, 1, map[string]string{"env": "x", "zone": "y"})
			sc.Bound = 1
			return sc
		}(), func() vrt.Scenario {
			// five labels: a slice grown by append to five elements has room for three more
			sc := componentLabelled([]string{"s", "f"}, 0, labelsN(5))
			sc.Bound = 1
			return sc
		}())
		for _, scr := range [][]string{{"d", "d"}, {"s", "f"}, {"sd", "fd"}} {
			sc := componentPlain(scr, 1)
			sc.Bound = 1
			out = append(out, sc)
		}
		add(2, 0, "h") // a helper goroutine fails the handle late: result and metrics must agree
		add(2, 1, "sh", "f")
		return out
	}
	add(1000, 1, "s")
	add(1000, 1, "f")
	add(1000, 2, "s")
	add(1000, 1, "ss")
	add(1000, 1, "sf")
	add(1000, 1, "s", "s")
	add(1000, 1, "s", "f")
	add(1000, 1, "d", "s")
	add(3, 2, "sf", "fs")
	add(3, 2, "sd", "fd")
	add(3, 1, "s", "f", "d")
	add(3, 2, "ss", "ff")
	add(2, 2, "sf", "fd", "ds")
	for _, n := range []int{1, 3, 4, 5, 8, 9, 13} {
		sc := componentLabelled([]string{"sd", "f"}, 0, labelsN(n))
		sc.Bound = 2
		out = append(out, sc)
	}
	for _, scr := range [][]string{{"s", "f"}, {"sd", "f"}, {"sf", "fs"}, {"d", "s", "f"}} {
		sc := componentLabelled(scr, 1, map[string]string{"env": "x", "zone": "y"})
		sc.Bound = 3
		if len(scr) > 2 {
			sc.Bound = 2
		}
		out = append(out, sc)
	}
	for _, scr := range [][]string{{"d", "d"}, {"s", "s"}, {"s", "f"}, {"sd", "fd"}, {"d", "s", "f"}} {
		sc := componentPlain(scr, 1)
		sc.Bound = 2
		out = append(out, sc)
	}
	add(1000, 0, "h")
	add(3, 1, "hs", "f")
	add(3, 1, "h", "h")
	return out
}

func main() { vrt.Main("C01", scenariosFor) }
