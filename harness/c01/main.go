// Harness for C01: every executed iteration is counted exactly once.
//
// Component scenarios: W recorder threads drive the real
// workers.ActiveScenario.Run / RecordDroppedIteration (which record into the
// real progress.Stats and metrics.Metrics) with scripted outcomes, one
// snapshotter thread calls the real run.Result.SnapshotProgress k times, main
// joins everything and calls GetTotals. Oracle: the final Result.Snapshot()
// counts and the Prometheus sample counts equal the ground truth.
package main

import (
	"fmt"
	"strconv"
	"strings"
	"time"

	"github.com/prometheus/client_golang/prometheus"

	"github.com/form3tech-oss/f1/v2/internal/metrics"
	"github.com/form3tech-oss/f1/v2/internal/options"
	"github.com/form3tech-oss/f1/v2/internal/progress"
	"github.com/form3tech-oss/f1/v2/internal/run"
	"github.com/form3tech-oss/f1/v2/internal/verifharness/hlib"
	"github.com/form3tech-oss/f1/v2/internal/verifshim/vrt"
	"github.com/form3tech-oss/f1/v2/internal/verifshim/vsync"
	"github.com/form3tech-oss/f1/v2/internal/workers"
	"github.com/form3tech-oss/f1/v2/pkg/f1/scenarios"
	f1testing "github.com/form3tech-oss/f1/v2/pkg/f1/testing"
)

const (
	oSuccess = 's'
	oFail    = 'f'
	oDrop    = 'd'
)

type counts struct{ s, f, d uint64 }

type world struct {
	res   *run.Result
	reg   *prometheus.Registry
	truth counts
}

var w *world

func component(scripts []string, snaps int) vrt.Scenario {
	name := fmt.Sprintf("component/scripts=%s/snapshots=%d", strings.Join(scripts, ","), snaps)
	body := func() {
		stats := &progress.Stats{}
		reg := prometheus.NewRegistry()
		m := metrics.NewInstance(reg, true, nil)
		res := run.NewResult(options.RunOptions{}, nil, stats)
		cur := &world{res: res, reg: reg}
		w = cur
		sc := &scenarios.Scenario{Name: "s"}
		as := workers.NewActiveScenario(sc, m, stats, hlib.DiscardLogger(), hlib.DiscardLogrus())
		per := make([]counts, len(scripts))
		sc.RunFn = func(t *f1testing.T) {
			// iteration id = "<worker>.<index>"; the script says how it ends
			parts := strings.SplitN(t.Iteration, ".", 2)
			wi, _ := strconv.Atoi(parts[0])
			ii, _ := strconv.Atoi(parts[1])
			if scripts[wi][ii] == oFail {
				t.Fail()
			}
		}
		var wg vsync.WaitGroup
		wg.Add(len(scripts) + 1)
		for i, script := range scripts {
			i, script := i, script
			vrt.GoNamed(fmt.Sprintf("rec%d", i), func() {
				defer wg.Done()
				st := as.VerifNewIterationState()
				for j := 0; j < len(script); j++ {
					switch script[j] {
					case oDrop:
						per[i].d++
						as.RecordDroppedIteration()
					case oSuccess:
						per[i].s++
						st.VerifT().Reset(fmt.Sprintf("%d.%d", i, j))
						as.Run(st)
					case oFail:
						per[i].f++
						st.VerifT().Reset(fmt.Sprintf("%d.%d", i, j))
						as.Run(st)
					}
				}
			})
		}
		vrt.GoNamed("snap", func() {
			defer wg.Done()
			for k := 0; k < snaps; k++ {
				res.SnapshotProgress(time.Second)
			}
		})
		wg.Wait()
		res.GetTotals()
		for _, c := range per {
			cur.truth.s += c.s
			cur.truth.f += c.f
			cur.truth.d += c.d
		}
	}
	post := func(o *vrt.Outcome) {
		classify(o, "C01")
		if o.Status != vrt.StOK {
			return
		}
		snap := w.res.Snapshot()
		got := counts{snap.SuccessfulIterationDurations.Count, snap.FailedIterationDurations.Count, snap.DroppedIterationCount}
		if got != w.truth {
			o.Fail("C01/final-counts", diffKey(got, w.truth), fmt.Sprintf("final result counts {success,fail,dropped}=%v, ground truth %v", got, w.truth))
		}
		mc := gatherCounts(w.reg)
		if mc != w.truth {
			o.Fail("C01/metric-counts", diffKey(mc, w.truth), fmt.Sprintf("exported iteration metric sample counts %v, ground truth %v", mc, w.truth))
		}
	}
	return vrt.Scenario{Name: name, Body: body, Post: post, Memo: true, Horizon: time.Minute}
}

func diffKey(got, want counts) string {
	var p []string
	cmp := func(n string, g, w uint64) {
		switch {
		case g < w:
			p = append(p, n+"-lost")
		case g > w:
			p = append(p, n+"-overcounted")
		}
	}
	cmp("success", got.s, want.s)
	cmp("fail", got.f, want.f)
	cmp("dropped", got.d, want.d)
	return strings.Join(p, "+")
}

// classify turns scheduler-level outcomes into violations.
func classify(o *vrt.Outcome, prop string) {
	switch o.Status {
	case vrt.StDeadlock:
		o.Fail(prop+"/deadlock", "component", "deadlock: "+o.Detail)
	case vrt.StCrash:
		o.Fail(prop+"/crash", "component", o.Crash)
	case vrt.StHorizon:
		o.Fail(prop+"/no-return", "component", "did not finish by the horizon: "+o.Detail)
	}
}

func gatherCounts(reg *prometheus.Registry) counts {
	var c counts
	mfs, err := reg.Gather()
	if err != nil {
		panic(err)
	}
	for _, mf := range mfs {
		if mf.GetName() != "form3_loadtest_iteration" {
			continue
		}
		for _, m := range mf.GetMetric() {
			var result, stage string
			for _, l := range m.GetLabel() {
				if l.GetName() == "result" {
					result = l.GetValue()
				}
				if l.GetName() == "stage" {
					stage = l.GetValue()
				}
			}
			if stage != "iteration" {
				continue
			}
			n := m.GetSummary().GetSampleCount()
			switch result {
			case "success":
				c.s += n
			case "fail":
				c.f += n
			case "dropped":
				c.d += n
			}
		}
	}
	return c
}

func scenariosFor(tier string) []vrt.Scenario {
	var out []vrt.Scenario
	add := func(b int, snaps int, scripts ...string) {
		sc := component(scripts, snaps)
		sc.Bound = b
		out = append(out, sc)
	}
	if tier == "quick" {
		add(2, 1, "s")
		add(2, 1, "f")
		add(2, 1, "sd", "f")
		add(2, 2, "ss")
		add(2, 1, "sf", "fs")
		add(2, 2, "s", "s")
		add(2, 1, "d", "s", "f")
		return out
	}
	add(1000, 1, "s")
	add(1000, 1, "f")
	add(1000, 2, "s")
	add(1000, 1, "ss")
	add(1000, 1, "sf")
	add(1000, 1, "s", "s")
	add(1000, 1, "s", "f")
	add(1000, 1, "d", "s")
	add(3, 2, "sf", "fs")
	add(3, 2, "sd", "fd")
	add(3, 1, "s", "f", "d")
	add(3, 2, "ss", "ff")
	add(2, 2, "sf", "fd", "ds")
	return out
}

func main() { vrt.Main("C01", scenariosFor) }
