// Litmus suite for the vrt scheduler and shims: small programs whose complete
// outcome sets are known by hand. Each is explored without a bound (memo on)
// and the set of observed outcomes must equal the expected set exactly: a
// missing outcome means the explorer or a shim forbids a real behaviour, an
// extra one means a shim is too weak.
package main

import (
	"fmt"
	"os"
	"sort"
	"strings"
	"time"

	"github.com/form3tech-oss/f1/v2/internal/verifshim/vatomic"
	"github.com/form3tech-oss/f1/v2/internal/verifshim/vctx"
	"github.com/form3tech-oss/f1/v2/internal/verifshim/vrt"
	"github.com/form3tech-oss/f1/v2/internal/verifshim/vsync"
	"github.com/form3tech-oss/f1/v2/internal/verifshim/vtime"
)

type litmus struct {
	name       string
	body       func(out *string)
	expect     []string
	crashPrefix bool    // crash outcomes are compared by the expected text's prefix (the recorded text carries a stack)
	expectMemo []string // if set: what the memo'd search sees (documents the data-race-freedom assumption)
	bound      int
}

func join(fs ...func()) {
	var wg vsync.WaitGroup
	wg.Add(len(fs))
	for i, f := range fs {
		f := f
		vrt.GoNamed(fmt.Sprintf("t%d", i+1), func() { defer wg.Done(); f() })
	}
	wg.Wait()
}

// closed outside any execution, the way a package initialiser of rewritten code would
var preClosed = func() chan struct{} {
	ch := make(chan struct{})
	vrt.Close(ch)
	return ch
}()

var tests = []litmus{
	{name: "store-buffer (atomics are sequentially consistent)", expect: []string{"r1=0 r2=1", "r1=1 r2=0", "r1=1 r2=1"}, body: func(out *string) {
		var x, y vatomic.Int64
		var r1, r2 int64
		join(func() { x.Store(1); r1 = y.Load() }, func() { y.Store(1); r2 = x.Load() })
		*out = fmt.Sprintf("r1=%d r2=%d", r1, r2)
	}},
	{name: "lost update (load then store)", expect: []string{"x=1", "x=2"}, body: func(out *string) {
		var x vatomic.Int64
		inc := func() { x.Store(x.Load() + 1) }
		join(inc, inc)
		*out = fmt.Sprintf("x=%d", x.Load())
	}},
	{name: "atomic add never loses", expect: []string{"x=3"}, body: func(out *string) {
		var x vatomic.Int64
		inc := func() { x.Add(1) }
		join(inc, inc, inc)
		*out = fmt.Sprintf("x=%d", x.Load())
	}},
	{name: "mutex protects check-then-act", expect: []string{"x=2"}, body: func(out *string) {
		var mu vsync.Mutex
		x := 0
		inc := func() { mu.Lock(); v := x; vrt.Yield(); x = v + 1; mu.Unlock() }
		join(inc, inc)
		*out = fmt.Sprintf("x=%d", x)
	}},
	// WaitGroup reuse: a waiter that has been released but has not resumed yet finds the group in use again
	// (Add from zero) and the real sync.WaitGroup panics; the shim does too.
	{name: "WaitGroup reused before the previous Wait has returned: the released waiter panics", expect: []string{"waited", "CRASH panic in thread main.1: sync: WaitGroup is reused before previous Wait has returned"}, crashPrefix: true, body: func(out *string) {
		var wg vsync.WaitGroup
		wg.Add(1)
		done := make(chan struct{})
		vrt.Go(func() { wg.Wait(); *out = "waited"; vrt.Close(done) })
		wg.Done()
		wg.Add(1) // the next round starts while the waiter of the previous one may not have resumed
		wg.Done()
		vrt.Recv(done)
	}},
	{name: "WaitGroup: a second round that starts after the waiter has returned is fine", expect: []string{"waited"}, body: func(out *string) {
		var wg vsync.WaitGroup
		wg.Add(1)
		done := make(chan struct{})
		vrt.Go(func() { wg.Wait(); *out = "waited"; vrt.Close(done) })
		wg.Done()
		vrt.Recv(done)
		wg.Add(1)
		wg.Done()
		wg.Wait()
	}},
	// A race on plain memory: the two yields are independent operations, so the
	// happens-before memo (rightly, for race-free programs) merges the
	// interleavings and misses x=1. This is the documented blind spot of E1.
	{name: "check-then-act on plain memory without mutex (data race: memo is blind to it)", expect: []string{"x=1", "x=2"}, expectMemo: []string{"x=2"}, body: func(out *string) {
		x := 0
		inc := func() { v := x; vrt.Yield(); x = v + 1 }
		join(inc, inc)
		*out = fmt.Sprintf("x=%d", x)
	}},
	// The rewriter turns `c.n++` on a field into read; vrt.Plain(); write. With plain
	// points off that is one step (no lost update can be seen), with them on the two
	// increments interleave - provided the memo is off, as in the scenarios that use them.
	{name: "plain points off: a read-modify-write of plain memory is one step", expect: []string{"x=2"}, body: func(out *string) {
		vrt.PlainPoints = false
		x := 0
		inc := func() { v := x; vrt.Plain(); x = v + 1 }
		join(inc, inc)
		*out = fmt.Sprintf("x=%d", x)
	}},
	{name: "plain points on: the lost update is visible (without the memo)", expect: []string{"x=1", "x=2"}, expectMemo: []string{"x=2"}, body: func(out *string) {
		vrt.PlainPoints = true
		defer func() { vrt.PlainPoints = false }()
		x := 0
		inc := func() { v := x; vrt.Plain(); x = v + 1 }
		join(inc, inc)
		*out = fmt.Sprintf("x=%d", x)
	}},
	{name: "external call points: a value prepared in shared memory can be overwritten before the call", expect: []string{"a b", "a a", "b b"}, expectMemo: []string{"a b"}, body: func(out *string) {
		vrt.ExtCalls = true
		defer func() { vrt.ExtCalls = false }()
		var scratch string
		var used []string
		use := func(v string) func() {
			return func() { scratch = v; vrt.ExtCall("WithLabelValues"); used = append(used, scratch) }
		}
		join(use("a"), use("b"))
		sort.Strings(used)
		*out = strings.Join(used, " ")
	}},
	{name: "LiveOthers counts the threads that have not finished", expect: []string{"during=1 after=0"}, body: func(out *string) {
		var wg vsync.WaitGroup
		wg.Add(1)
		var gate vatomic.Bool
		vrt.GoNamed("t1", func() { defer wg.Done(); vrt.WaitUntil("gate", func() bool { return gate.Peek() }) })
		vrt.Yield()
		during := vrt.LiveOthers()
		gate.Store(true)
		wg.Wait()
		*out = fmt.Sprintf("during=%d after=%d", during, vrt.LiveOthers())
	}},
	{name: "a channel closed before the execution began is closed inside it", expect: []string{"closed ok=false"}, body: func(out *string) {
		_, ok := vrt.Recv2(preClosed)
		*out = fmt.Sprintf("closed ok=%v", ok)
	}},
	{name: "cond: wait with the lock held never misses the signal", expect: []string{"woken"}, body: func(out *string) {
		var mu vsync.Mutex
		c := vsync.NewCond(&mu)
		ready := false
		join(func() {
			mu.Lock()
			for !ready {
				c.Wait()
			}
			mu.Unlock()
		}, func() { mu.Lock(); ready = true; c.Broadcast(); mu.Unlock() })
		*out = "woken"
	}},
	{name: "cond: flag set and signalled outside the lock can be missed", expect: []string{"woken", "DEADLOCK"}, body: func(out *string) {
		var mu vsync.Mutex
		c := vsync.NewCond(&mu)
		var ready vatomic.Bool
		join(func() {
			for !ready.Load() {
				mu.Lock()
				c.Wait()
				mu.Unlock()
			}
		}, func() { ready.Store(true); c.Broadcast() })
		*out = "woken"
	}},
	{name: "rwmutex: recursive read lock deadlocks iff a writer arrives in between", expect: []string{"ok", "DEADLOCK"}, body: func(out *string) {
		var rw vsync.RWMutex
		join(func() { rw.RLock(); rw.RLock(); rw.RUnlock(); rw.RUnlock() }, func() { rw.Lock(); rw.Unlock() })
		*out = "ok"
	}},
	{name: "rwmutex: readers queued behind a writer get the lock before a second writer", expect: []string{"order=w1 r w2", "order=r w1 w2", "order=r w2 w1", "order=w1 w2 r", "order=w2 r w1", "order=w2 w1 r"}, body: func(out *string) {
		// not every permutation is reachable once the reader has queued behind w1: "w1 w2 r" needs the reader to arrive after w2 announced
		var rw vsync.RWMutex
		var order []string
		join(func() { rw.Lock(); order = append(order, "w1"); rw.Unlock() },
			func() { rw.RLock(); order = append(order, "r"); rw.RUnlock() },
			func() { rw.Lock(); order = append(order, "w2"); rw.Unlock() })
		*out = "order=" + strings.Join(order, " ")
	}},
	{name: "waitgroup: Wait returns after every Done", expect: []string{"n=2"}, body: func(out *string) {
		var wg vsync.WaitGroup
		var n vatomic.Int64
		wg.Add(2)
		vrt.Go(func() { n.Add(1); wg.Done() })
		vrt.Go(func() { n.Add(1); wg.Done() })
		wg.Wait()
		*out = fmt.Sprintf("n=%d", n.Load())
	}},
	{name: "unbuffered channel is a rendez-vous", expect: []string{"got=7 sent-before-recv-returned=true"}, body: func(out *string) {
		ch := make(chan int)
		var sent vatomic.Bool
		var got int
		var seen bool
		join(func() { vrt.Send(ch, 7); sent.Store(true) }, func() { got = vrt.Recv(ch); vrt.Yield() })
		seen = sent.Load()
		*out = fmt.Sprintf("got=%d sent-before-recv-returned=%v", got, seen)
	}},
	{name: "buffered channel of capacity 1: second send waits for a receive", expect: []string{"a b"}, body: func(out *string) {
		ch := make(chan string, 1)
		var got []string
		join(func() { vrt.Send(ch, "a"); vrt.Send(ch, "b") }, func() { got = append(got, vrt.Recv(ch)); got = append(got, vrt.Recv(ch)) })
		*out = strings.Join(got, " ")
	}},
	{name: "select picks any ready case", expect: []string{"a", "b"}, body: func(out *string) {
		a, b := make(chan int, 1), make(chan int, 1)
		vrt.Send(a, 1)
		vrt.Send(b, 2)
		r := vrt.Select(false, vrt.CaseRecv(a), vrt.CaseRecv(b))
		*out = []string{"a", "b"}[r.I]
	}},
	{name: "select with default does not block; closed channel is always ready", expect: []string{"default closed-ok=false"}, body: func(out *string) {
		a := make(chan int)
		r := vrt.Select(true, vrt.CaseRecv(a))
		s := "case"
		if r.I == -1 {
			s = "default"
		}
		vrt.Close(a)
		_, ok := vrt.Recv2(a)
		*out = fmt.Sprintf("%s closed-ok=%v", s, ok)
	}},
	{name: "ticker drops ticks nobody takes (capacity 1)", bound: -1, expect: []string{"ticks=2"}, body: func(out *string) {
		t := vtime.NewTicker(10 * time.Millisecond)
		vtime.Sleep(35 * time.Millisecond) // three ticks fire, one is buffered
		n := 0
		vrt.Recv(t.C)
		n++
		vrt.Recv(t.C) // the tick at 40ms
		n++
		t.Stop()
		*out = fmt.Sprintf("ticks=%d", n)
	}},
	{name: "timer Stop does not drain (pre-1.23 semantics)", bound: -1, expect: []string{"stopped=false buffered=1"}, body: func(out *string) {
		t := vtime.NewTimer(time.Millisecond)
		vtime.Sleep(2 * time.Millisecond)
		st := t.Stop()
		r := vrt.Select(true, vrt.CaseRecv(t.C))
		n := 0
		if r.I == 0 {
			n = 1
		}
		*out = fmt.Sprintf("stopped=%v buffered=%d", st, n)
	}},
	{name: "deadline and explicit cancel at the same instant: either error", bound: 2, expect: []string{"context canceled", "context deadline exceeded"}, body: func(out *string) {
		ctx, cancel := vctx.WithTimeout(vctx.Background(), 10*time.Millisecond)
		vrt.Go(func() { vtime.Sleep(10 * time.Millisecond); cancel() })
		vrt.Recv(ctx.Done())
		*out = ctx.Err().Error()
	}},
	{name: "cancel reaches children; a child cancel does not reach the parent", bound: 2, expect: []string{"child=context canceled parent=<nil> grandchild=context canceled"}, body: func(out *string) {
		p, pc := vctx.WithCancel(vctx.Background())
		defer pc()
		c, cc := vctx.WithCancel(p)
		g, gc := vctx.WithTimeout(c, time.Hour)
		defer gc()
		cc()
		vrt.Recv(g.Done())
		*out = fmt.Sprintf("child=%v parent=%v grandchild=%v", c.Err(), p.Err(), g.Err())
	}},
	{name: "mutex has no hand-off: the releasing thread may barge", expect: []string{"t1 t1 t2", "t1 t2 t1", "t2 t1 t1"}, body: func(out *string) {
		var mu vsync.Mutex
		var order []string
		join(func() {
			mu.Lock()
			order = append(order, "t1")
			mu.Unlock()
			mu.Lock()
			order = append(order, "t1")
			mu.Unlock()
		}, func() { mu.Lock(); order = append(order, "t2"); mu.Unlock() })
		*out = strings.Join(order, " ")
	}},
	{name: "once runs exactly once and later callers wait for it", expect: []string{"runs=1 seen=2"}, body: func(out *string) {
		var o vsync.Once
		runs := 0
		var seen vatomic.Int64
		f := func() {
			o.Do(func() { vrt.Yield(); runs++ })
			if runs == 1 {
				seen.Add(1)
			}
		}
		join(f, f)
		*out = fmt.Sprintf("runs=%d seen=%d", runs, seen.Load())
	}},
	{name: "early timer expiry is a deviation: bound 0 sees only the prompt outcome", bound: -1, expect: []string{"worked-before-timeout"}, body: func(out *string) {
		ctx, cancel := vctx.WithTimeout(vctx.Background(), time.Millisecond)
		defer cancel()
		var x vatomic.Int64
		x.Add(1)
		if ctx.Err() != nil {
			*out = "timeout-first"
		} else {
			*out = "worked-before-timeout"
		}
	}},
	// the deadline's cancel runs in its own thread (like time.AfterFunc's goroutine):
	// firing the timer early is one deviation, running that thread before main continues a second
	{name: "early context deadline: bound 2 sees both", bound: 2, expect: []string{"timeout-first", "worked-before-timeout"}, body: func(out *string) {
		ctx, cancel := vctx.WithTimeout(vctx.Background(), time.Millisecond)
		defer cancel()
		var x vatomic.Int64
		x.Add(1)
		if ctx.Err() != nil {
			*out = "timeout-first"
		} else {
			*out = "worked-before-timeout"
		}
	}},
}

func main() {
	failed := 0
	var totalExec int64
	for _, memo := range []bool{true, false} {
		for _, t := range tests {
			t := t
			var outcome string
			seen := map[string]int{}
			bound := 1000
			if t.bound == -1 {
				bound = 0
			} else if t.bound > 0 {
				bound = t.bound
			}
			e := &vrt.Explorer{Name: t.name, Bound: bound, UseMemo: memo, Horizon: int64(time.Hour), EarlyWindow: int64(2 * time.Second), SelectFairness: 3,
				Body: func() { outcome = ""; t.body(&outcome) },
				Post: func(o *vrt.Outcome) {
					s := outcome
					switch o.Status {
					case vrt.StDeadlock:
						s = "DEADLOCK"
					case vrt.StCrash:
						s = "CRASH " + o.Crash
						if t.crashPrefix {
							for _, w := range t.expect {
								if strings.HasPrefix(s, w) {
									s = w
								}
							}
						}
					case vrt.StHorizon:
						s = "HORIZON"
					}
					seen[s]++
				}}
			if !memo {
				e.MaxExec = 20000
			}
			e.Deadline = time.Now().Add(5 * time.Second)
			e.Run()
			totalExec += e.Stats.Executions
			var got []string
			for k := range seen {
				got = append(got, k)
			}
			sort.Strings(got)
			want := append([]string(nil), t.expect...)
			if memo && t.expectMemo != nil {
				want = append([]string(nil), t.expectMemo...)
			}
			sort.Strings(want)
			ok := strings.Join(got, " | ") == strings.Join(want, " | ")
			if memo && t.expectMemo != nil {
				// the blind-spot programs: the memo'd search sees at least expectMemo and nothing outside expect
				in := func(x string, l []string) bool {
					for _, y := range l {
						if x == y {
							return true
						}
					}
					return false
				}
				ok = true
				for _, w := range t.expectMemo {
					ok = ok && in(w, got)
				}
				for _, g := range got {
					ok = ok && in(g, t.expect)
				}
			}
			if !e.Stats.Exhaustive && !memo {
				// without the memo the larger ones are capped: then only "no unexpected outcome" is checked
				ok = true
				for _, g := range got {
					found := false
					for _, w := range want {
						if g == w {
							found = true
						}
					}
					ok = ok && found
				}
			}
			status := "ok  "
			if !ok {
				status = "FAIL"
				failed++
			}
			fmt.Printf("%s memo=%-5v exec=%-7d exhaustive=%-5v %s\n", status, memo, e.Stats.Executions, e.Stats.Exhaustive, t.name)
			if !ok {
				fmt.Printf("       got:  %s\n       want: %s\n", strings.Join(got, " | "), strings.Join(want, " | "))
			}
		}
	}
	fmt.Printf("litmus: %d programs x {memo, no memo}, %d executions, %d failed\n", len(tests), totalExec, failed)
	if failed > 0 {
		os.Exit(1)
	}
}
