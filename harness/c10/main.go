// Harness for C10 (E2): staged and ramp profiles are the configured
// piecewise-linear shapes, for every stage list over a small alphabet and every
// non-decreasing query sequence (the staged calculator has a cursor, so
// history matters).
package main

import (
	"fmt"
	"math/big"
	"sort"
	"strings"
	"time"

	"github.com/form3tech-oss/f1/v2/internal/trigger/ramp"
	"github.com/form3tech-oss/f1/v2/internal/trigger/staged"
	"github.com/form3tech-oss/f1/v2/internal/verifharness/hlib"
	"github.com/form3tech-oss/f1/v2/internal/verifshim/vrt"
	"github.com/form3tech-oss/f1/v2/internal/verifshim/vtime"
	f1testing "github.com/form3tech-oss/f1/v2/pkg/f1/testing"
)

type stage struct {
	d      time.Duration
	target int
}

var (
	durAlpha    = []time.Duration{0, 700 * time.Millisecond, time.Second, 3 * time.Second}
	targetAlpha = []int{0, 1, 2, 7, 100, -10} // a negative target is a target like any other: the shape passes through it (a negative request asks for nothing)
	t0          = time.Date(2024, 3, 1, 12, 0, 0, 750_000_123, time.UTC) // not aligned to a second (or a millisecond)
)

func stagesString(l []stage) string {
	var p []string
	for _, s := range l {
		p = append(p, fmt.Sprintf("%s:%d", s.d, s.target))
	}
	return strings.Join(p, ",")
}

// reference: exact rational interpolation. Returns the exact value times den
// (num/den), the stage bounds and whether the profile is over.
type refVal struct {
	over     bool
	a, b     int   // the stage's two targets
	num, den int64 // exact = a + num/den*(b-a) ... kept as offset/duration
	stage    int
}

func ref(l []stage, off time.Duration) refVal {
	start := time.Duration(0)
	prev := 0
	for i, s := range l {
		if off < start+s.d { // boundary instants belong to the next stage
			return refVal{a: prev, b: s.target, num: int64(off - start), den: int64(s.d), stage: i}
		}
		start += s.d
		prev = s.target
	}
	return refVal{over: true}
}

func checkValue(r *hlib.Rec, what, input string, rv refVal, got int) {
	if rv.over {
		if got != 0 {
			r.Fail("C10/"+what+"-after-end", "nonzero", fmt.Sprintf("got %d after all stages have elapsed", got), input)
		}
		return
	}
	// |got - exact| <= 1 with exact = a + num/den*(b-a): compare den*(got-a) with num*(b-a) +- den
	// (in arbitrary precision: durations in nanoseconds times rates overflow int64 for long, steep stages)
	lhs := new(big.Int).Mul(big.NewInt(rv.den), big.NewInt(int64(got-rv.a)))
	rhs := new(big.Int).Mul(big.NewInt(rv.num), big.NewInt(int64(rv.b-rv.a)))
	if diff := new(big.Int).Sub(lhs, rhs); diff.CmpAbs(big.NewInt(rv.den)) > 0 {
		r.Fail("C10/"+what+"-interpolation", "off-by-more-than-1", fmt.Sprintf("got %d, exact value is %d + %d/%d*(%d)", got, rv.a, rv.num, rv.den, rv.b-rv.a), input)
	}
	lo, hi := rv.a, rv.b
	if lo > hi {
		lo, hi = hi, lo
	}
	if got < lo || got > hi {
		r.Fail("C10/"+what+"-range", "outside-targets", fmt.Sprintf("got %d outside the stage's targets [%d,%d]", got, lo, hi), input)
	}
}

func instants(l []stage) []time.Duration {
	total := time.Duration(0)
	set := map[time.Duration]bool{}
	for _, s := range l {
		total += s.d
		for _, d := range []time.Duration{-1, 0, 1} {
			if total+d >= 0 {
				set[total+d] = true
			}
		}
	}
	for t := time.Duration(0); t <= total+time.Second; t += 250 * time.Millisecond {
		set[t] = true
	}
	out := make([]time.Duration, 0, len(set))
	for t := range set {
		out = append(out, t)
	}
	sort.Slice(out, func(i, j int) bool { return out[i] < out[j] })
	return out
}

func allLists(maxLen int) [][]stage {
	var out [][]stage
	var rec func(cur []stage)
	rec = func(cur []stage) {
		if len(cur) > 0 {
			out = append(out, append([]stage(nil), cur...))
		}
		if len(cur) == maxLen {
			return
		}
		for _, d := range durAlpha {
			for _, t := range targetAlpha {
				rec(append(cur, stage{d, t}))
			}
		}
	}
	rec(nil)
	sort.SliceStable(out, func(i, j int) bool { return len(out[i]) < len(out[j]) })
	return out
}

// tail: once all stages have elapsed the value is 0, however often and however
// much later the same calculator is asked again.
func tail(r *hlib.Rec, what, input string, f func(time.Time) int, total time.Duration) {
	for _, past := range []time.Duration{1, time.Second, time.Second, 3*time.Second + 500*time.Millisecond, time.Hour, 2 * time.Hour} {
		r.Step()
		if v := f(t0.Add(total + past)); v != 0 {
			r.Fail("C10/"+what+"-after-end", "nonzero-on-a-later-query", fmt.Sprintf("got %d at +%s, after the profile (total %s) had already been queried past its end", v, total+past, total), input)
			return
		}
	}
}

func stagedSuite(maxLen, seqLen int, withStart bool) hlib.Suite {
	name := fmt.Sprintf("staged/lists<=%d/query-sequences<=%d/start-given=%v", maxLen, seqLen, withStart)
	return hlib.Suite{Name: name, Weight: 4, Run: func(r *hlib.Rec) {
		for _, l := range allLists(maxLen) {
			if !r.Mine() {
				continue
			}
			if r.Expired() {
				return
			}
			str := stagesString(l)
			var startp *time.Time
			if withStart {
				s := t0
				startp = &s
			}
			mk := func() func(time.Time) int {
				rates, err := staged.CalculateStagedRate(0, time.Second, str, "none", startp)
				if err != nil {
					panic(err)
				}
				var total time.Duration
				for _, s := range l {
					total += s.d
				}
				if rates.Duration != total {
					r.Fail("C10/staged-duration", "not-sum", fmt.Sprintf("Duration %s, sum of stage durations %s", rates.Duration, total), str)
				}
				return rates.Rate
			}
			ins := instants(l)
			if len(l) <= 2 {
				r.Sample(map[string]any{"stages": str, "query_instants": len(ins)})
			}
			// direct values: a fresh calculator asked once at each instant. With no
			// start given the first query is the origin, so prime it at 0 first.
			direct := make([]int, len(ins))
			for i, t := range ins {
				f := mk()
				if !withStart {
					f(t0)
				}
				direct[i] = f(t0.Add(t))
				r.Eval()
				input := fmt.Sprintf("stages=%q start-given=%v query at +%s", str, withStart, t)
				r.SampleCase(input)
				rv := ref(l, t)
				checkValue(r, "staged", input, rv, direct[i])
				r.Distinct(fmt.Sprintf("stage=%d over=%v dir=%d", rv.stage, rv.over, sign(rv.b-rv.a)))
				var total time.Duration
				for _, s := range l {
					total += s.d
				}
				tail(r, "staged", input, f, total)
			}
			// all non-decreasing sequences: stepped value must equal the direct one,
			// and values within a stage must be monotone in the stage's direction
			var seq func(depth, from int, f func(time.Time) int, prevIdx int, prevVal int, path []time.Duration)
			seq = func(depth, from int, f func(time.Time) int, prevIdx int, prevVal int, path []time.Duration) {
				for i := from; i < len(ins); i++ {
					var g func(time.Time) int
					// a calculator cannot be cloned: rebuild and replay the path
					g = mk()
					if !withStart {
						g(t0)
					}
					for _, p := range path {
						g(t0.Add(p))
					}
					v := g(t0.Add(ins[i]))
					r.Eval()
					if v != direct[i] {
						r.Fail("C10/staged-history", "stepped-differs-from-direct", fmt.Sprintf("value %d at +%s after stepping through %v, %d when asked directly", v, ins[i], path, direct[i]),
							fmt.Sprintf("stages=%q start-given=%v path=%v then +%s", str, withStart, path, ins[i]))
					}
					if prevIdx >= 0 {
						a, b := ref(l, ins[prevIdx]), ref(l, ins[i])
						if !a.over && !b.over && a.stage == b.stage {
							if d := sign(a.b - a.a); (d > 0 && v < prevVal) || (d < 0 && v > prevVal) {
								r.Fail("C10/staged-monotone", "not-monotone", fmt.Sprintf("%d at +%s then %d at +%s within one stage going %d->%d", prevVal, ins[prevIdx], v, ins[i], a.a, a.b),
									fmt.Sprintf("stages=%q", str))
							}
						}
					}
					if depth+1 < seqLen {
						seq(depth+1, i, nil, i, v, append(path, ins[i]))
					}
				}
			}
			seq(0, 0, nil, -1, 0, nil)
		}
	}}
}

func sign(x int) int {
	switch {
	case x > 0:
		return 1
	case x < 0:
		return -1
	}
	return 0
}

func rampSuite(seqLen int) hlib.Suite {
	return hlib.Suite{Name: fmt.Sprintf("ramp/query-sequences<=%d", seqLen), Run: func(r *hlib.Rec) {
		rates := []int{0, 1, 2, 10, 100}
		for _, unit := range []time.Duration{time.Second, 100 * time.Millisecond} {
			for _, dur := range []time.Duration{time.Second, 2500 * time.Millisecond, 10 * time.Second} {
				for _, s := range rates {
					for _, e := range rates {
						if s == e || !r.Mine() {
							continue
						}
						if r.Expired() {
							return
						}
						sa, ea := fmt.Sprintf("%d/%s", s, unit), fmt.Sprintf("%d/%s", e, unit)
						mk := func() func(time.Time) int {
							rt, err := ramp.CalculateRampRate(sa, ea, "none", dur, 0)
							if err != nil {
								panic(err)
							}
							if rt.Duration != dur {
								r.Fail("C10/ramp-duration", "wrong", fmt.Sprintf("Duration %s, want %s", rt.Duration, dur), sa+" "+ea)
							}
							return rt.Rate
						}
						set := map[time.Duration]bool{}
						for t := time.Duration(0); t <= dur+2*unit; t += unit {
							set[t] = true
						}
						for _, d := range []time.Duration{-1, 0, 1} {
							set[dur+d] = true
							set[dur/2+d] = true
						}
						var ins []time.Duration
						for t := range set {
							ins = append(ins, t)
						}
						sort.Slice(ins, func(i, j int) bool { return ins[i] < ins[j] })
						r.Sample(map[string]any{"start": sa, "end": ea, "duration": dur.String(), "query_instants": len(ins)})
						refv := func(off time.Duration) refVal {
							if off > dur {
								return refVal{over: true}
							}
							return refVal{a: s, b: e, num: int64(off), den: int64(dur)}
						}
						direct := make([]int, len(ins))
						for i, t := range ins {
							f := mk()
							if v0 := f(t0); v0 != s {
								r.Fail("C10/ramp-start", "first-value", fmt.Sprintf("first evaluation returns %d, start rate is %d", v0, s), sa+" "+ea)
							}
							direct[i] = f(t0.Add(t))
							r.Eval()
							rv := refv(t)
							checkValue(r, "ramp", fmt.Sprintf("ramp %s -> %s over %s, query at +%s", sa, ea, dur, t), rv, direct[i])
							tail(r, "ramp", fmt.Sprintf("ramp %s -> %s over %s, query at +%s", sa, ea, dur, t), f, dur)
							r.Distinct(fmt.Sprintf("ramp over=%v dir=%d unit=%s", rv.over, sign(e-s), unit))
						}
						var seq func(depth, from int, prevVal int, path []time.Duration)
						seq = func(depth, from int, prevVal int, path []time.Duration) {
							for i := from; i < len(ins); i++ {
								g := mk()
								g(t0)
								for _, p := range path {
									g(t0.Add(p))
								}
								v := g(t0.Add(ins[i]))
								r.Eval()
								if v != direct[i] {
									r.Fail("C10/ramp-history", "stepped-differs-from-direct", fmt.Sprintf("value %d at +%s after %v, %d directly", v, ins[i], path, direct[i]), sa+" "+ea)
								}
								if len(path) > 0 && ins[i] <= dur {
									if (e > s && v < prevVal) || (e < s && v > prevVal) {
										r.Fail("C10/ramp-monotone", "not-monotone", fmt.Sprintf("%d then %d at +%s", prevVal, v, ins[i]), sa+" "+ea)
									}
								}
								if depth+1 < seqLen {
									seq(depth+1, i, v, append(path, ins[i]))
								}
							}
						}
						seq(0, 0, 0, nil)
					}
				}
			}
		}
	}}
}

// calculatorSuite: the exported calculator itself (ParseStages + NewRateCalculator): its
// total duration stays the sum of all stage durations however far it has been
// queried, and targets mean what they spell (a zero-padded number is decimal).
func calculatorSuite() hlib.Suite {
	return hlib.Suite{Name: "staged/calculator-api/duration-after-queries+target-spellings", Run: func(r *hlib.Rec) {
		for _, str := range []string{"10s:5,20s:5,30s:0", "0s:3,1s:7", "1s:2", "0s:0,500ms:10,0s:4,2s:4"} {
			r.Eval()
			stages, err := staged.ParseStages(str)
			if err != nil {
				r.Fail("C10/harness", "parse", err.Error(), str)
				continue
			}
			var total time.Duration
			for _, s := range stages {
				total += s.Duration
			}
			// the trigger's total duration, for start times before, at and after the present moment
			// (the code's own clock: the virtual clock's epoch outside a run)
			for _, rel := range []time.Duration{-1000 * time.Hour, -time.Hour, -total, -total + 1, -total / 2, -time.Second, -1, 0, 1, time.Second, time.Hour} {
				st := vtime.Now().Add(rel)
				rates, err := staged.CalculateStagedRate(0, time.Second, str, "none", &st)
				r.Step()
				if err != nil {
					r.Fail("C10/harness", "build", err.Error(), str)
				} else if rates.Duration != total {
					r.Fail("C10/staged-duration", "not-sum/start-relative-to-now", fmt.Sprintf("start time = now%+d ns: Duration %s, the stages sum to %s", int64(rel), rates.Duration, total), str)
				}
			}
			start := t0
			calc := staged.NewRateCalculator(stages, &start)
			for k := 0; k <= 12; k++ {
				at := time.Duration(int64(total) / 8 * int64(k))
				calc.Rate(t0.Add(at))
				r.Step()
				if d := calc.MaxDuration(); d != total {
					r.Fail("C10/staged-duration", "changes-with-queries", fmt.Sprintf("after a query at +%s the calculator reports a total duration of %s, the stages sum to %s", at, d, total), str)
					break
				}
			}
			r.Distinct(str)
		}
		for _, tc := range []struct {
			str  string
			want []int
		}{{"10s:010", []int{10}}, {"0s:007,10s:0100", []int{7, 100}}, {"1s:08", []int{8}}, {"1s:00", []int{0}}, {"1s:0012,1s:012", []int{12, 12}}} {
			r.Eval()
			stages, err := staged.ParseStages(tc.str)
			if err != nil {
				r.Distinct("rejected " + tc.str) // rejecting is allowed; a different number is not
				continue
			}
			for i, s := range stages {
				if i < len(tc.want) && s.EndTarget != tc.want[i] {
					r.Fail("C10/staged-target", "not-what-it-spells", fmt.Sprintf("stage %d of %q has target %v, it spells %d", i, tc.str, s.EndTarget, tc.want[i]), tc.str)
				}
			}
			r.Distinct("accepted " + tc.str)
		}
	}}
}

// largeSuite: long and steep profiles (hours to weeks, up to 10^9 per tick):
// nanoseconds times rate differences do not fit 64 bits.
func largeSuite() hlib.Suite {
	return hlib.Suite{Name: "ramp+staged/long-and-steep", Run: func(r *hlib.Rec) {
		rates := []int{0, 1000, 200_000, 5_000_000, 1_000_000_000}
		durs := []time.Duration{time.Hour, 2 * time.Hour, 24 * time.Hour, 30 * 24 * time.Hour}
		for _, dur := range durs {
			for _, a := range rates {
				for _, b := range rates {
					if a == b || !r.Mine() {
						continue
					}
					for _, kind := range []string{"ramp", "staged"} {
						var f func(time.Time) int
						var input string
						if kind == "ramp" {
							rt, err := ramp.CalculateRampRate(fmt.Sprintf("%d/s", a), fmt.Sprintf("%d/s", b), "none", dur, 0)
							if err != nil {
								panic(err)
							}
							f, input = rt.Rate, fmt.Sprintf("ramp %d/s -> %d/s over %s", a, b, dur)
						} else {
							str := fmt.Sprintf("0s:%d,%s:%d", a, dur, b)
							st, err := staged.CalculateStagedRate(0, time.Second, str, "none", nil)
							if err != nil {
								panic(err)
							}
							f, input = st.Rate, fmt.Sprintf("stages=%q", str)
						}
						f(t0)
						prev, first := 0, true
						for k := 0; k <= 64; k++ {
							off := time.Duration(int64(dur) / 64 * int64(k))
							if k == 64 {
								off = dur - 1
							}
							v := f(t0.Add(off))
							r.Eval()
							checkValue(r, kind, fmt.Sprintf("%s, query at +%s", input, off), refVal{a: a, b: b, num: int64(off), den: int64(dur)}, v)
							if !first && ((b > a && v < prev) || (b < a && v > prev)) {
								r.Fail("C10/"+kind+"-monotone", "not-monotone", fmt.Sprintf("%d then %d at +%s", prev, v, off), input)
							}
							prev, first = v, false
						}
						tail(r, kind, input, f, dur)
						r.Distinct(fmt.Sprintf("%s dur=%s dir=%d steep=%v", kind, dur, sign(b-a), a+b > 1_000_000))
					}
				}
			}
		}
		r.Sample("start/end in {0, 10^3, 2x10^5, 5x10^6, 10^9} per second over {1h, 2h, 24h, 30d}, 65 instants each")
	}}
}

// cliSuite: the profiles as a run applies them, through the outermost entry point (`f1 run ramp|staged s ...`
// with the common flags present, as the CLI registers them): iterations started per tick against the exact
// interpolation of the *configured* shape - in particular when --max-duration is shorter or longer than the
// ramp / the stages, and when --ramp-duration is left to default to --max-duration.
func cliSuite() hlib.Suite {
	type cse struct {
		args  []string
		a, b  int // rates per tick at the two ends of the segment in force during the run
		seg   time.Duration
		run   time.Duration // how long triggering goes on (min of max-duration-10ms and the profile's length)
		after bool          // the profile ends before max-duration: the run ends with it
	}
	tick := 100 * time.Millisecond
	common := []string{"--distribution", "none", "--concurrency", "400", "--jitter", "0"}
	cases := []cse{
		{args: []string{"ramp", "s", "--start-rate", "0/100ms", "--end-rate", "100/100ms", "--ramp-duration", "10s", "--max-duration", "2s"}, a: 0, b: 100, seg: 10 * time.Second, run: 2 * time.Second},
		{args: []string{"ramp", "s", "--start-rate", "100/100ms", "--end-rate", "0/100ms", "--ramp-duration", "10s", "--max-duration", "2s"}, a: 100, b: 0, seg: 10 * time.Second, run: 2 * time.Second},
		{args: []string{"ramp", "s", "--start-rate", "10/100ms", "--end-rate", "50/100ms", "--ramp-duration", "0s", "--max-duration", "2s"}, a: 10, b: 50, seg: 2 * time.Second, run: 2 * time.Second},
		{args: []string{"ramp", "s", "--start-rate", "10/100ms", "--end-rate", "30/100ms", "--ramp-duration", "1s", "--max-duration", "3s"}, a: 10, b: 30, seg: time.Second, run: 3 * time.Second, after: true},
		{args: []string{"ramp", "s", "--start-rate", "3/100ms", "--end-rate", "40/100ms", "--ramp-duration", "2500ms", "--max-duration", "6s"}, a: 3, b: 40, seg: 2500 * time.Millisecond, run: 6 * time.Second, after: true},
		{args: []string{"staged", "s", "--stages", "0s:0,10s:100", "--iterationFrequency", "100ms", "--max-duration", "2s"}, a: 0, b: 100, seg: 10 * time.Second, run: 2 * time.Second},
		{args: []string{"staged", "s", "--stages", "0s:60,10s:10", "--iterationFrequency", "100ms", "--max-duration", "1500ms"}, a: 60, b: 10, seg: 10 * time.Second, run: 1500 * time.Millisecond},
		{args: []string{"staged", "s", "--stages", "0s:5,1s:25", "--iterationFrequency", "100ms", "--max-duration", "6s"}, a: 5, b: 25, seg: time.Second, run: 6 * time.Second, after: true},
	}
	return hlib.Suite{Name: "cli/ramp+staged/iterations-per-tick-vs-configured-shape/max-duration-shorter-and-longer", Run: func(r *hlib.Rec) {
		for _, c := range cases {
			if !r.Mine() {
				continue
			}
			r.Eval()
			args := append(append([]string{}, c.args...), common...)
			input := "f1 run " + strings.Join(args, " ")
			r.SampleCase(input)
			var setupAt int64 = -1
			var starts []int64
			res := hlib.RunCLIScenario(args, 2*time.Hour, func(*f1testing.T) f1testing.RunFn {
				setupAt = vrt.Clock()
				return func(*f1testing.T) { starts = append(starts, vrt.Clock()) }
			})
			if res.Status != vrt.StOK || res.Err != nil {
				r.Fail("C10/cli-run-broken", "run", fmt.Sprintf("%s %s%s err=%v", res.Status, res.Crash, res.Detail, res.Err), input)
				continue
			}
			per := map[int64]int{}
			var last int64
			for _, t := range starts {
				k := (t - setupAt) / int64(tick)
				per[k]++
				if k > last {
					last = k
				}
			}
			// ticks k = 0, 1, ... while k*tick lies inside the triggering window (max-duration less the 10 ms guard); past
			// the end of the profile nothing is requested
			end := c.run - 10*time.Millisecond
			for k := int64(0); time.Duration(k)*tick <= end; k++ {
				off := time.Duration(k) * tick
				switch {
				case off < c.seg || (off == c.seg && !c.after):
					rv := refVal{a: c.a, b: c.b, num: int64(off), den: int64(c.seg)}
					checkValue(r, "cli", fmt.Sprintf("%s: iterations started at tick %d (+%s)", input, k, off), rv, per[k])
				case off == c.seg:
					// the tick at the very end of the profile: the end rate or nothing
				case per[k] != 0:
					r.Fail("C10/cli-after-end", "nonzero-after-the-profile", fmt.Sprintf("%d iterations started at tick %d (+%s); the profile ended at +%s", per[k], k, off, c.seg), input)
				}
				r.Step()
			}
			if time.Duration(last)*tick > end {
				r.Fail("C10/cli-after-end", "iterations-after-the-window", fmt.Sprintf("an iteration started at tick %d (+%s); triggering ends at +%s", last, time.Duration(last)*tick, end), input)
			}
			r.Distinct(strings.Join(c.args, " "))
		}
	}}
}

func suites(tier string) []hlib.Suite {
	if tier == "quick" {
		return []hlib.Suite{stagedSuite(2, 2, false), stagedSuite(2, 2, true), stagedSuite(3, 1, false), rampSuite(2), largeSuite(), calculatorSuite(), cliSuite()}
	}
	return []hlib.Suite{stagedSuite(3, 2, false), stagedSuite(3, 2, true), stagedSuite(2, 3, false), stagedSuite(2, 3, true), stagedSuite(4, 1, false), stagedSuite(3, 3, true), rampSuite(3), largeSuite(), calculatorSuite(), cliSuite()}
}

func main() { hlib.EnumMain("C10", suites) }
