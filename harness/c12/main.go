// Harness for C12 (E2): distributing a rate over 100 ms sub-ticks neither
// creates nor loses iterations.
package main

import (
	"fmt"
	"strings"
	"time"

	"github.com/form3tech-oss/f1/v2/internal/trigger/api"
	"github.com/form3tech-oss/f1/v2/internal/trigger/constant"
	"github.com/form3tech-oss/f1/v2/internal/verifharness/hlib"
	"github.com/form3tech-oss/f1/v2/internal/verifshim/vrand"
	"github.com/form3tech-oss/f1/v2/internal/verifshim/vrt"
	f1testing "github.com/form3tech-oss/f1/v2/pkg/f1/testing"
)

var now = time.Date(2024, 1, 1, 0, 0, 0, 0, time.UTC)

func regularSuite(maxN, maxRate, step int) hlib.Suite { return regularRange(2, maxN, maxRate, step) }

// regularRange: minN > 1000 are intervals beyond 100 s (small rates spread over more than a thousand sub-ticks).
func regularRange(minN, maxN, maxRate, step int) hlib.Suite {
	return hlib.Suite{Name: fmt.Sprintf("regular/%d<=N<=%d/rate<=%d/step=%d/two-cycles", minN, maxN, maxRate, step), Weight: 6, Run: func(r *hlib.Rec) {
		for n := minN; n <= maxN; n++ {
			if !r.Mine() {
				continue
			}
			// also an interval that is not a multiple of 100 ms (N = floor)
			for _, extra := range []time.Duration{0, 15 * time.Millisecond, 99 * time.Millisecond} {
				interval := time.Duration(n)*100*time.Millisecond + extra
				for rate := 0; rate <= maxRate; rate += step {
					if r.Expired() {
						return
					}
					calls := 0
					cur := rate
					d, f, err := api.NewDistribution(api.RegularDistribution, interval, func(time.Time) int { calls++; return cur }, nil)
					input := fmt.Sprintf("regular interval=%s rate=%d", interval, rate)
					r.SampleCase(input)
					if err != nil || d != 100*time.Millisecond {
						r.Fail("C12/regular-interval", "wrong", fmt.Sprintf("interval %s err %v", d, err), input)
						continue
					}
					for cycle := 0; cycle < 2; cycle++ {
						if cycle == 1 {
							cur = rate/2 + 1 // the next cycle asks for something else
						}
						want := cur
						r.Eval()
						sum, mn, mx := 0, 1<<30, -1
						for i := 0; i < n; i++ {
							v := f(now)
							if v < 0 {
								r.Fail("C12/regular-negative", "negative", fmt.Sprintf("value %d", v), input)
							}
							sum += v
							if v < mn {
								mn = v
							}
							if v > mx {
								mx = v
							}
						}
						if sum != want {
							r.Fail("C12/regular-sum", cmp(sum, want), fmt.Sprintf("cycle %d of %d sub-ticks sums to %d, the rate function returned %d", cycle, n, sum, want), input)
						}
						if mx-mn > 1 {
							r.Fail("C12/regular-even", "spread>1", fmt.Sprintf("values within a cycle range from %d to %d", mn, mx), input)
						}
						if calls != cycle+1 {
							r.Fail("C12/regular-calls", "not-once-per-cycle", fmt.Sprintf("underlying rate evaluated %d times after %d cycles", calls, cycle+1), input)
						}
					}
					r.Distinct(fmt.Sprintf("n=%d q=%d", n%7, class(rate, n)))
				}
			}
		}
		r.Sample(map[string]any{"kind": "regular", "N": "2..", "rate": "0..", "cycles": 2})
	}}
}

// hugeSuite: rates around 10^8 .. 10^15 per cycle. Findings at or above beyondRate
// carry their own key (see known_findings.txt), anything below it is keyed like
// the ordinary sweep.
// beyondRate: from here on one float64 rounding error per addition, relative 2^-53
// of a value up to the rate, accumulated over a cycle can exceed the 1e-7 the
// code rounds up by (rate x 2^-52 >= 1e-7).
const beyondRate = 1e-7 * (1 << 52) // about 4.5 x 10^8 iterations per cycle

func hugeSuite() hlib.Suite {
	return hlib.Suite{Name: "regular/rates-10^8..10^15/one-cycle", Run: func(r *hlib.Rec) {
		now := time.Unix(0, 0)
		for _, n := range []int{2, 3, 6, 7, 9, 10, 11, 13, 600} {
			for _, base := range []int{1e8, 1e9, 1e10, 1e11, 1e12, 1e13, 1e15} {
				if !r.Mine() {
					continue
				}
				for d := 0; d < 200; d++ {
					rate := base + d
					r.Eval()
					_, f, err := api.NewDistribution(api.RegularDistribution, time.Duration(n)*100*time.Millisecond, func(time.Time) int { return rate }, nil)
					input := fmt.Sprintf("regular interval=%s rate=%d", time.Duration(n)*100*time.Millisecond, rate)
					r.SampleCase(input)
					if err != nil {
						r.Fail("C12/regular-interval", "wrong", err.Error(), input)
						continue
					}
					sum := 0
					for i := 0; i < n; i++ {
						v := f(now)
						if v < 0 {
							r.Fail("C12/regular-negative", "negative", fmt.Sprintf("value %d", v), input)
						}
						sum += v
					}
					beyond := float64(rate) >= beyondRate
					r.Distinct(fmt.Sprintf("n=%d beyond=%v exact=%v", n, beyond, sum == rate))
					if sum == rate {
						continue
					}
					msg := fmt.Sprintf("one cycle of %d sub-ticks sums to %d, the rate function returned %d", n, sum, rate)
					if !beyond {
						r.Fail("C12/regular-sum", cmp(sum, rate), msg, input)
					} else if rate-sum == 1 {
						r.Fail("C12/regular-sum-beyond-float64-precision", "lost-one-per-cycle", msg, input)
					} else {
						r.Fail("C12/regular-sum-beyond-float64-precision", fmt.Sprintf("%s-%d", cmp(sum, rate), abs(rate-sum)), msg, input)
					}
				}
			}
		}
		r.Sample("rates 10^k + 0..199 for k in 8..13,15; N in {2,3,6,7,9,10,11,13,600}")
	}}
}

func abs(x int) int {
	if x < 0 {
		return -x
	}
	return x
}

func class(rate, n int) int {
	switch {
	case rate == 0:
		return 0
	case rate < n:
		return 1
	case rate%n == 0:
		return 2
	}
	return 3
}

func cmp(got, want int) string {
	if got < want {
		return "lost"
	}
	return "created"
}

var clocks = []string{"constant", "steady-100ms", "stall-mid-cycle", "irregular", "backwards"}

func varyingSuite() hlib.Suite {
	return hlib.Suite{Name: "regular+random/time-varying-rate-sequences", Run: func(r *hlib.Rec) {
		alpha := []int{0, 1, 3, 7, 10}
		for _, kind := range []api.DistributionType{api.RegularDistribution, api.RandomDistribution} {
			for _, n := range []int{1, 2, 3, 5, 10} { // N=1: an interval between 100 and 200 ms (a cycle is one sub-tick)
				for a := range alpha {
					for b := range alpha {
						for c := range alpha {
							if !r.Mine() {
								continue
							}
							for _, clock := range clocks {
								seq := []int{alpha[a], alpha[b], alpha[c]}
								idx := -1
								extra := []time.Duration{0, 50 * time.Millisecond, 99 * time.Millisecond}[(a+b+c)%3]
								interval := time.Duration(n)*100*time.Millisecond + extra
								_, f, _ := api.NewDistribution(kind, interval, func(time.Time) int {
									idx++
									if idx >= len(seq) {
										return 0 // more evaluations than cycles: reported below
									}
									return seq[idx]
								}, func(k int) int { return k / 2 })
								input := fmt.Sprintf("%s interval=%s (N=%d) rates=%v timestamps=%s", kind, interval, n, seq, clock)
								r.SampleCase(input)
								ts, call := now, 0
								for cyc := 0; cyc < 3; cyc++ {
									r.Eval()
									sum := 0
									for i := 0; i < n; i++ {
										// the timestamps handed to the function: a cycle is N calls, whatever the clock says
										switch clock {
										case "steady-100ms":
											ts = ts.Add(100 * time.Millisecond)
										case "stall-mid-cycle":
											ts = ts.Add(100 * time.Millisecond)
											if i == n/2 {
												ts = ts.Add(3 * interval)
											}
										case "irregular":
											ts = ts.Add([]time.Duration{time.Millisecond, 250 * time.Millisecond, 0, 2 * interval, 99 * time.Millisecond}[call%5])
										case "backwards":
											ts = ts.Add(-37 * time.Millisecond)
										}
										call++
										v := f(ts)
										if v < 0 {
											r.Fail("C12/varying-negative", "negative", fmt.Sprint(v), input)
										}
										sum += v
									}
									if sum != seq[cyc] {
										r.Fail("C12/varying-sum", cmp(sum, seq[cyc]), fmt.Sprintf("cycle %d sums to %d, want %d", cyc, sum, seq[cyc]), input)
									}
									if idx != cyc {
										r.Fail("C12/varying-calls", "not-once-per-cycle", fmt.Sprintf("%d evaluations after %d cycles", idx+1, cyc+1), input)
									}
								}
								r.Distinct(fmt.Sprintf("%s %d %v %s", kind, n, seq, clock))
							}
						}
					}
				}
			}
		}
		r.Sample(map[string]any{"kind": "regular,random", "N": []int{2, 3, 5, 10}, "rates": "all triples over {0,1,3,7,10}", "timestamps": clocks})
	}}
}

// randomSuite: every answer sequence of the random source over
// {0, n/2, n-1, n, n+5} (in and beyond the [0,n) range).
func randomSuite(maxN int) hlib.Suite {
	return hlib.Suite{Name: fmt.Sprintf("random/N<=%d/all-random-answers", maxN), Weight: 2, Run: func(r *hlib.Rec) {
		answers := func(n int) []int { return []int{0, n / 2, n - 1, n, n + 5} }
		for n := 2; n <= maxN; n++ {
			for _, rate := range []int{0, 1, 2, 5, 10} {
				if !r.Mine() {
					continue
				}
				// enumerate answer scripts as base-5 numbers of n-1 digits (the last step draws nothing), two cycles
				digits := 2 * (n - 1)
				total := 1
				for i := 0; i < digits; i++ {
					total *= 5
				}
				for code := 0; code < total; code++ {
					if r.Expired() {
						return
					}
					r.Eval()
					calls, draws := 0, 0
					c := code
					randFn := func(k int) int {
						a := answers(k)[c%5]
						c /= 5
						draws++
						if a < 0 {
							a = 0
						}
						return a
					}
					extra := []time.Duration{0, 50 * time.Millisecond, 99 * time.Millisecond}[code%3] // N = floor(interval / 100 ms)
					_, f, _ := api.NewDistribution(api.RandomDistribution, time.Duration(n)*100*time.Millisecond+extra, func(time.Time) int { calls++; return rate }, randFn)
					input := fmt.Sprintf("random interval=%s (N=%d) rate=%d answer-script=%d", time.Duration(n)*100*time.Millisecond+extra, n, rate, code)
					r.SampleCase(input)
					for cyc := 0; cyc < 2; cyc++ {
						sum := 0
						for i := 0; i < n; i++ {
							v := f(now)
							if v < 0 {
								r.Fail("C12/random-negative", "negative", fmt.Sprint(v), input)
							}
							sum += v
						}
						if sum != rate {
							r.Fail("C12/random-sum", cmp(sum, rate), fmt.Sprintf("cycle %d sums to %d, want %d", cyc, sum, rate), input)
						}
						if calls != cyc+1 {
							r.Fail("C12/random-calls", "not-once-per-cycle", fmt.Sprintf("%d evaluations after %d cycles", calls, cyc+1), input)
						}
					}
					if code < 40 {
						r.Distinct(fmt.Sprintf("n=%d rate=%d code=%d", n, rate, code))
					}
				}
			}
		}
		r.Sample(map[string]any{"kind": "random", "answers": "{0,n/2,n-1,n,n+5} at every draw", "cycles": 2})
	}}
}

// longRunSuite: "over any number of consecutive cycles" - tens of millions of
// sub-ticks for a few configurations, so that anything carried from cycle to
// cycle (a rounding residue, say) has the time to surface.
func longRunSuite(subTicks int) hlib.Suite {
	return hlib.Suite{Name: fmt.Sprintf("regular+random/long-runs/%d-sub-ticks", subTicks), Weight: 2, Run: func(r *hlib.Rec) {
		type lc struct {
			kind api.DistributionType
			n    int
			rate int
		}
		for _, c := range []lc{{api.RegularDistribution, 600, 7}, {api.RegularDistribution, 10, 7}, {api.RegularDistribution, 3, 1}, {api.RegularDistribution, 7, 999}, {api.RandomDistribution, 10, 7}} {
			if !r.Mine() {
				continue
			}
			calls := 0
			_, f, _ := api.NewDistribution(c.kind, time.Duration(c.n)*100*time.Millisecond, func(time.Time) int { calls++; return c.rate }, func(k int) int { return k / 3 })
			input := fmt.Sprintf("%s N=%d rate=%d, %d consecutive cycles", c.kind, c.n, c.rate, subTicks/c.n)
			r.SampleCase(input)
			for cyc := 0; cyc < subTicks/c.n; cyc++ {
				if r.Expired() {
					return
				}
				r.Eval()
				sum := 0
				for i := 0; i < c.n; i++ {
					sum += f(now)
				}
				if sum != c.rate {
					r.Fail("C12/long-run-sum", cmp(sum, c.rate), fmt.Sprintf("cycle %d sums to %d, want %d", cyc, sum, c.rate), input)
					break
				}
				if calls != cyc+1 {
					r.Fail("C12/long-run-calls", "not-once-per-cycle", fmt.Sprintf("%d evaluations after %d cycles", calls, cyc+1), input)
					break
				}
			}
			r.Distinct(input)
		}
		r.Sample("N=600 rate=7, N=10 rate=7, N=3 rate=1, N=7 rate=999 (regular), N=10 rate=7 (random) for tens of millions of sub-ticks")
	}}
}

// triggerSuite: the distribution as the constant trigger composes it with jitter
// (constant.CalculateConstantRate): the underlying rate of a cycle is the jittered
// rate, so the random source is drawn from once per cycle, and a regular cycle
// is still an even split of one value.
func triggerSuite() hlib.Suite {
	return hlib.Suite{Name: "through-the-constant-trigger/jitter-x-distribution", Run: func(r *hlib.Rec) {
		defer func() { vrand.Script = nil }()
		us := []float64{0, 0.125, 0.25, 0.375, 0.5}
		for _, jit := range []float64{0, 20, 50} {
			for _, dist := range []string{"none", "regular", "random"} {
				for _, rate := range []string{"100/1s", "7/300ms", "10/100ms", "3/2s"} {
					if !r.Mine() {
						continue
					}
					r.Eval()
					input := fmt.Sprintf("constant --rate %s --jitter %v --distribution %s", rate, jit, dist)
					r.SampleCase(input)
					draws := 0
					vrand.Script = func() float64 { draws++; return us[draws%len(us)] }
					rates, err := constant.CalculateConstantRate(jit, rate, dist)
					if err != nil {
						r.Fail("C12/trigger-rejected", dist, err.Error(), input)
						continue
					}
					var unit time.Duration
					var perUnit int
					fmt.Sscanf(rate, "%d/", &perUnit)
					unit, _ = time.ParseDuration(rate[strings.Index(rate, "/")+1:])
					n := 1
					if dist != "none" && unit > 100*time.Millisecond {
						n = int(unit / (100 * time.Millisecond))
					}
					ts := now
					for cyc := 0; cyc < 6; cyc++ {
						before := draws
						mn, mx := 1<<30, -1
						for i := 0; i < n; i++ {
							ts = ts.Add(rates.IterationDuration)
							v := rates.Rate(ts)
							r.Step()
							if v < mn {
								mn = v
							}
							if v > mx {
								mx = v
							}
						}
						// the random distribution draws for its own split too; what is fixed is
						// the jitter: none without jitter, one draw per cycle with it
						if dist != "random" {
							wantDraws := 1
							if jit == 0 {
								wantDraws = 0
							}
							if draws-before != wantDraws {
								r.Fail("C12/trigger-underlying-rate", "not-once-per-cycle", fmt.Sprintf("cycle %d of %d sub-ticks: the jittered underlying rate was drawn %d times, want %d", cyc, n, draws-before, wantDraws), input)
								break
							}
						}
						if dist == "regular" && mx-mn > 1 {
							r.Fail("C12/trigger-even", "spread>1", fmt.Sprintf("cycle %d: values range from %d to %d", cyc, mn, mx), input)
							break
						}
					}
					r.Distinct(input)
				}
			}
		}
	}}
}

func passSuite() hlib.Suite {
	return hlib.Suite{Name: "pass-through-and-unknown-kind", Run: func(r *hlib.Rec) {
		for _, kind := range []api.DistributionType{api.NoneDistribution, api.RegularDistribution, api.RandomDistribution} {
			for _, iv := range []time.Duration{time.Millisecond, 50 * time.Millisecond, 100 * time.Millisecond, 150 * time.Millisecond, 250 * time.Millisecond, 1050 * time.Millisecond, time.Second, time.Minute} {
				if kind != api.NoneDistribution && iv > 100*time.Millisecond {
					continue
				}
				for _, rate := range []int{0, 1, 7, 10000} {
					r.Eval()
					calls := 0
					d, f, err := api.NewDistribution(kind, iv, func(time.Time) int { calls++; return rate }, nil)
					input := fmt.Sprintf("%s interval=%s rate=%d", kind, iv, rate)
					r.SampleCase(input)
					if err != nil || d != iv {
						r.Fail("C12/pass-through", "interval", fmt.Sprintf("interval %s err %v", d, err), input)
						continue
					}
					for i := 1; i <= 3; i++ {
						if v := f(now); v != rate || calls != i {
							r.Fail("C12/pass-through", "value", fmt.Sprintf("value %d calls %d at call %d", v, calls, i), input)
						}
					}
					r.Distinct(input)
				}
			}
		}
		for _, bad := range []string{"", "Regular", "uniform", " none"} {
			r.Eval()
			_, _, err := api.NewDistribution(api.DistributionType(bad), time.Second, func(time.Time) int { return 1 }, nil)
			if err == nil {
				r.Fail("C12/unknown-kind", "accepted", "unknown distribution accepted", bad)
			}
			r.Distinct("bad " + bad)
		}
		r.Sample("none / <=100ms intervals pass through; unknown kinds are errors")
	}}
}

// runSuite: the sub-ticks as a run applies them, through every entry point that pairs a distributed rate function
// with a tick length (the constant / staged / ramp builders of the CLI and the config-file stages of the same
// modes): with a profile that asks for R per cycle, every full cycle of the run starts exactly R iterations, spread
// over 100 ms sub-ticks (evenly for the regular distribution).
func runSuite() hlib.Suite {
	return hlib.Suite{Name: "whole-runs/cli-and-config-file-stages/iterations-per-cycle-and-per-sub-tick", Run: func(r *hlib.Rec) {
		for _, entry := range []string{"cli", "file"} {
			for _, mode := range []string{"constant", "staged", "ramp"} {
				for _, dist := range []string{"regular", "random"} {
					for _, f := range []time.Duration{200 * time.Millisecond, 500 * time.Millisecond, time.Second} {
						for _, R := range []int{7, 40} {
							if !r.Mine() {
								continue
							}
							r.Eval()
							var starts []int64
							var setupAt int64
							scn := func(*f1testing.T) f1testing.RunFn {
								setupAt = vrt.Clock()
								return func(*f1testing.T) { starts = append(starts, vrt.Clock()) }
							}
							var input string
							var status vrt.Status
							var detail string
							if entry == "cli" {
								args := []string{mode, "s", "--distribution", dist, "--jitter", "0", "--concurrency", "200", "--max-duration", "3s"}
								switch mode {
								case "constant":
									args = append(args, "--rate", fmt.Sprintf("%d/%s", R, f))
								case "staged":
									args = append(args, "--stages", fmt.Sprintf("0s:%d,10s:%d", R, R), "--iterationFrequency", f.String())
								case "ramp":
									args = append(args, "--start-rate", fmt.Sprintf("%d/%s", R, f), "--end-rate", fmt.Sprintf("%d/%s", 2*R, f), "--ramp-duration", "10s")
								}
								input = "f1 run " + strings.Join(args, " ")
								res := hlib.RunCLIScenario(args, time.Minute, scn)
								status, detail = res.Status, res.Crash+res.Detail
								if res.Err != nil {
									detail += " err=" + res.Err.Error()
									status = vrt.StCrash
								}
							} else {
								stage := ""
								switch mode {
								case "constant":
									stage = fmt.Sprintf("  mode: constant\n  rate: %d/%s\n", R, f)
								case "staged":
									stage = fmt.Sprintf("  mode: staged\n  stages: 0s:%d,10s:%d\n  iteration-frequency: %s\n", R, R, f)
								case "ramp":
									stage = fmt.Sprintf("  mode: ramp\n  start-rate: %d/%s\n  end-rate: %d/%s\n", R, f, 2*R, f)
								}
								doc := "scenario: s\nlimits:\n  max-duration: 5s\n  concurrency: 200\n  max-iterations: 0\n  ignore-dropped: true\nstages:\n- duration: 3s\n" + stage + "  jitter: 0\n  distribution: " + dist + "\n"
								input = "config file: " + strings.ReplaceAll(doc, "\n", " | ")
								rs := &hlib.RunSpec{Mode: "file", FileYAML: doc, Quiet: true, CompletionTimeout: time.Second, ScenarioFn: scn}
								res := hlib.RunOnce(rs, -1, 0, time.Minute)
								if res.BuildErr != nil {
									r.Fail("C12/run-broken", "build", res.BuildErr.Error(), input)
									continue
								}
								status, detail = res.Out.Status, res.Out.Crash+res.Out.Detail
							}
							r.SampleCase(input)
							if status != vrt.StOK {
								r.Fail("C12/run-broken", entry+"/"+mode, status.String()+": "+detail, input)
								continue
							}
							n := int(f / (100 * time.Millisecond))
							sub := map[int64]int{}
							for _, t := range starts {
								sub[(t-setupAt)/int64(100*time.Millisecond)]++
							}
							// full cycles inside the run: sub-ticks at 0, 100 ms, ... up to 2.9 s
							for c := 0; (c+1)*n <= 29; c++ {
								sum, mn, mx := 0, 1<<30, -1
								for k := c * n; k < (c+1)*n; k++ {
									v := sub[int64(k)]
									sum += v
									if v < mn {
										mn = v
									}
									if v > mx {
										mx = v
									}
								}
								r.Step()
								// what the profile asks for in this cycle: R, or for the ramp (R -> 2R over its duration: 10 s on the
								// command line, the stage's 3 s in a config file) the interpolation at the cycle's start, to within 1
								want, tol := R, 0
								if mode == "ramp" {
									rampDur := 10 * time.Second
									if entry == "file" {
										rampDur = 3 * time.Second
									}
									want, tol = R+int(int64(R)*int64(c)*int64(f)/int64(rampDur)), 1
								}
								if sum < want-tol || sum > want+tol {
									r.Fail("C12/run-cycle-sum", cmp(sum, want), fmt.Sprintf("cycle %d (sub-ticks %d..%d of 100 ms): %d iterations started, the profile asks for %d per %s in that cycle", c, c*n, (c+1)*n-1, sum, want, f), input)
									break
								}
								if dist == "regular" && mx-mn > 1 {
									r.Fail("C12/run-even", "spread>1", fmt.Sprintf("cycle %d: between %d and %d iterations per sub-tick", c, mn, mx), input)
									break
								}
							}
							r.Distinct(fmt.Sprintf("%s %s %s %s", entry, mode, dist, f))
						}
					}
				}
			}
		}
	}}
}

func suites(tier string) []hlib.Suite {
	if tier == "quick" {
		return []hlib.Suite{regularSuite(100, 300, 1), regularSuite(30, 1_000_000, 331), regularRange(1001, 1024, 400, 1), hugeSuite(), varyingSuite(), randomSuite(4), passSuite(), triggerSuite(), longRunSuite(40_000_000), runSuite()}
	}
	return []hlib.Suite{regularSuite(1000, 1500, 1), regularSuite(60, 20000, 7), regularSuite(12, 2_000_000, 997), regularSuite(12, 450_000_000, 99991), regularSuite(1000, 450_000_000, 9_999_991), regularRange(1001, 1100, 1000, 1), regularRange(1990, 2010, 1000, 1), hugeSuite(), varyingSuite(), randomSuite(5), passSuite(), triggerSuite(), longRunSuite(400_000_000), runSuite()}
}

func main() { hlib.EnumMain("C12", suites) }
