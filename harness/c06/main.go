// Harness for C06 (E2 over scenario programs, each run through the real
// Run.Do on the default virtual-time schedule): setup once, iterations, LIFO
// cleanups exactly once, teardown last.
package main

import (
	"fmt"
	"runtime"
	"strconv"
	"strings"
	"time"

	"github.com/form3tech-oss/f1/v2/internal/options"
	"github.com/form3tech-oss/f1/v2/internal/verifharness/hlib"
	"github.com/form3tech-oss/f1/v2/internal/verifshim/vrt"
	"github.com/form3tech-oss/f1/v2/internal/verifshim/vtime"
	"github.com/form3tech-oss/f1/v2/pkg/f1/scenarios"
	"github.com/form3tech-oss/f1/v2/pkg/f1"
	f1testing "github.com/form3tech-oss/f1/v2/pkg/f1/testing"
)

// behaviours
const (
	bOK      = "ok"
	bFail    = "Fail"
	bFailNow = "FailNow"
	bPanic   = "panic"
	bPanicE  = "panic(error)" // the panic value is an error (what a runtime error is, too)
	// panic values whose own String / Error method panics (a nil pointer whose method reads a field)
	bPanicBadS = "panic(stringer-whose-String-panics)"
	bPanicBadE = "panic(error-whose-Error-panics)"
	bBlock   = "block"        // body only: never returns (completion-timeout ending)
	bGoexit  = "Goexit"       // body only: runtime.Goexit, what FailNow of a standard library testing.T does
)

type iter struct {
	before  []string // cleanups registered before the body's failure point, each ok|panic|FailNow
	outcome string   // pass(ok)|Fail|FailNow|panic|block
	after   []string // cleanups registered after the failure point
}

type program struct {
	setup         string   // ok|Fail|FailNow|panic
	setupCleanups []string // registered before the setup's failure point
	iters         []iter
	mode          string // constant|users
	ending        string // duration|limit|cancel|timeout
	conc          int
	// the scenario is registered as f1.CombineScenarios(<a passing component>, <this program>): the lifecycle of
	// the program's cleanups is the same as when it is registered alone
	combined bool
}

func (p program) String() string {
	var its []string
	for _, it := range p.iters {
		its = append(its, fmt.Sprintf("[%s]%s[%s]", strings.Join(it.before, ","), it.outcome, strings.Join(it.after, ",")))
	}
	c := ""
	if p.combined {
		c = " registered-as-a-combined-scenario"
	}
	return fmt.Sprintf("setup=%s setup-cleanups=[%s] iterations=%s mode=%s ending=%s conc=%d%s", p.setup, strings.Join(p.setupCleanups, ","), strings.Join(its, " "), p.mode, p.ending, p.conc, c)
}

func act(t *f1testing.T, b string) {
	switch b {
	case bFail:
		t.Fail()
	case bFailNow:
		t.FailNow()
	case bPanic:
		panic("scripted panic")
	case bPanicE:
		panic(fmt.Errorf("scripted panic with an error value"))
	case bPanicBadS:
		var b *badStringer
		panic(b)
	case bPanicBadE:
		var b *badError
		panic(error(b))
	case bGoexit:
		runtime.Goexit()
	}
}

func (p program) spec() *hlib.RunSpec {
	rs := &hlib.RunSpec{Mode: p.mode, CompletionTimeout: 200 * time.Millisecond, Quiet: true,
		Opts: options.RunOptions{MaxDuration: 250 * time.Millisecond, Concurrency: p.conc, IgnoreDropped: true}}
	if p.mode == "constant" {
		rs.Flags = map[string]string{"rate": "1/100ms", "distribution": "none"}
	}
	switch p.ending {
	case "limit":
		rs.Opts.MaxDuration = 5 * time.Second
		rs.Opts.MaxIterations = uint64(len(p.iters))
	case "cancel", "cancel-in-setup":
		rs.Opts.MaxDuration = 5 * time.Second
	}
	rs.ScenarioFn = func(t *f1testing.T) f1testing.RunFn {
		vrt.LogQuiet("setup-begin")
		for k, c := range p.setupCleanups {
			k, c := k, c
			t.Cleanup(func() {
				vrt.LogQuiet(fmt.Sprintf("setup-cleanup %d", k))
				act(t, c)
			})
		}
		if p.ending == "cancel-in-setup" {
			hlib.CancelCurrentRun() // the caller interrupts while setup is still executing
		}
		act(t, p.setup)
		vrt.LogQuiet("setup-end")
		return func(t *f1testing.T) {
			id, _ := strconv.Atoi(t.Iteration)
			it := p.iters[(id-1)%len(p.iters)]
			h := fmt.Sprintf("%p", t)
			vrt.LogQuiet(fmt.Sprintf("body-begin %d %s", id, h))
			reg := func(k int, c string) {
				t.Cleanup(func() {
					vrt.LogQuiet(fmt.Sprintf("cleanup %d %d %s", id, k, h))
					act(t, c)
				})
			}
			for k, c := range it.before {
				reg(k, c)
			}
			if p.mode == "users" || p.ending == "cancel" {
				vtime.Sleep(100 * time.Millisecond)
			}
			if it.outcome == bBlock {
				vrt.WaitUntil("body-blocks-for-ever", func() bool { return false })
			}
			act(t, it.outcome)
			for k, c := range it.after {
				reg(len(it.before)+k, c)
			}
			vrt.LogQuiet(fmt.Sprintf("body-end %d %s", id, h))
		}
	}
	if p.combined {
		rs.ScenarioFn = f1.CombineScenarios(func(*f1testing.T) f1testing.RunFn { return func(*f1testing.T) {} }, rs.ScenarioFn)
	}
	return rs
}

type badStringer struct{ n *int }

func (b *badStringer) String() string { return fmt.Sprint(*b.n) }

type badError struct{ n *int }

func (b *badError) Error() string { return fmt.Sprint(*b.n) }

func stops(b string) bool {
	return b == bFailNow || b == bPanic || b == bPanicE || b == bGoexit || b == bPanicBadS || b == bPanicBadE
}

func check(r *hlib.Rec, p program) {
	r.Eval()
	input := p.String()
	r.SampleCase(input)
	cancelAt := time.Duration(-1)
	if p.ending == "cancel" {
		cancelAt = 150 * time.Millisecond
	}
	res := hlib.RunOnce(p.spec(), cancelAt, 500*time.Millisecond, 30*time.Second)
	if res.BuildErr != nil {
		panic(res.BuildErr)
	}
	key := func(k string) string { return k + "/" + p.ending }
	switch res.Out.Status {
	case vrt.StCrash:
		r.Fail("C06/crash", key(classOf(p)), res.Out.Crash, input)
		return
	case vrt.StDeadlock, vrt.StHorizon, vrt.StStepCap:
		r.Fail("C06/no-return", key(classOf(p)), res.Out.Status.String()+": "+res.Out.Detail, input)
		return
	}
	setupFailed := p.setup != bOK
	// parse the log
	type body struct {
		id, handle string
		cleanups   []int
		ended      bool
	}
	var (
		setupBegins, setupEnds int
		setupCleanups          []int
		bodies                 []*body
		byID                   = map[string]*body{}
		lastOnHandle           = map[string]*body{}
		returned               bool
		setupCleanupSeen       bool
		afterSetupCleanup      string
	)
	for _, ev := range res.Out.Log {
		f := strings.Fields(ev)
		if returned && f[0] != "do-returned" {
			r.Fail("C06/after-return", key(f[0]), "event after Do returned: "+ev, input)
		}
		switch f[0] {
		case "setup-begin":
			setupBegins++
			if len(bodies) > 0 {
				r.Fail("C06/setup-order", key("after-body"), "setup began after an iteration", input)
			}
		case "setup-end":
			setupEnds++
		case "body-begin":
			if setupBegins == 0 || (setupEnds == 0 && !stops(p.setup)) {
				r.Fail("C06/setup-order", key("body-before-setup-done"), "an iteration started before setup completed", input)
			}
			if setupFailed {
				r.Fail("C06/failed-setup-iterates", key(p.setup), "an iteration ran although setup "+p.setup+"ed", input)
			}
			if setupCleanupSeen {
				afterSetupCleanup = ev
			}
			b := &body{id: f[1], handle: f[2]}
			if prev := lastOnHandle[b.handle]; prev != nil {
				it := p.iters[(atoi(prev.id)-1)%len(p.iters)]
				if want := expectedCleanups(it); len(prev.cleanups) != len(want) {
					r.Fail("C06/cleanup-before-next", key("not-run-before-next-iteration"), fmt.Sprintf("iteration %s started on the same handle while iteration %s had run %d of its %d cleanups", b.id, prev.id, len(prev.cleanups), len(want)), input)
				}
			}
			lastOnHandle[b.handle] = b
			bodies = append(bodies, b)
			byID[b.id] = b
		case "body-end":
			if b := byID[f[1]]; b != nil {
				b.ended = true
			}
		case "cleanup":
			b := byID[f[1]]
			if b == nil {
				r.Fail("C06/cleanup", key("unknown-iteration"), ev, input)
				continue
			}
			it := p.iters[(atoi(b.id)-1)%len(p.iters)]
			if !b.ended && !stops(it.outcome) {
				r.Fail("C06/cleanup", key("before-body-end"), "cleanup ran before its body ended: "+ev, input)
			}
			b.cleanups = append(b.cleanups, atoi(f[2]))
		case "setup-cleanup":
			setupCleanupSeen = true
			setupCleanups = append(setupCleanups, atoi(f[1]))
		case "do-returned":
			returned = true
		}
	}
	if setupBegins != 1 {
		r.Fail("C06/setup-once", key(fmt.Sprint(setupBegins)), fmt.Sprintf("setup ran %d times", setupBegins), input)
	}
	if afterSetupCleanup != "" {
		r.Fail("C06/teardown-last", key("iteration-after-setup-cleanup"), "an iteration started after setup cleanups had begun: "+afterSetupCleanup, input)
	}
	timeoutEnding := p.ending == "timeout"
	for _, b := range bodies {
		it := p.iters[(atoi(b.id)-1)%len(p.iters)]
		if it.outcome == bBlock {
			continue // never finishes: its cleanups never run
		}
		want := expectedCleanups(it)
		if fmt.Sprint(b.cleanups) != fmt.Sprint(want) {
			r.Fail("C06/iteration-cleanups", key(cleanupRelation(b.cleanups, want)), fmt.Sprintf("iteration %s ran cleanups %v, expected %v (reverse registration order, each once)", b.id, b.cleanups, want), input)
		}
	}
	// setup cleanups: those registered before the setup's failure point, reverse order, once
	var wantSC []int
	for k := len(p.setupCleanups) - 1; k >= 0; k-- {
		wantSC = append(wantSC, k)
	}
	if fmt.Sprint(setupCleanups) != fmt.Sprint(wantSC) {
		r.Fail("C06/setup-cleanups", key(cleanupRelation(setupCleanups, wantSC)), fmt.Sprintf("setup cleanups ran as %v, expected %v", setupCleanups, wantSC), input)
	}
	// teardown last: after every started (finishing) iteration has finished
	if !timeoutEnding {
		seenSC := false
		for _, ev := range res.Out.Log {
			if strings.HasPrefix(ev, "setup-cleanup") {
				seenSC = true
			}
			if seenSC && (strings.HasPrefix(ev, "body-end") || strings.HasPrefix(ev, "cleanup ")) {
				r.Fail("C06/teardown-last", key("before-iterations-finished"), "a setup cleanup ran before "+ev, input)
				break
			}
		}
	}
	// verdict
	cleanupFails := false
	for _, c := range p.setupCleanups {
		if c != bOK {
			cleanupFails = true
		}
	}
	if setupFailed && !res.Failed {
		r.Fail("C06/verdict", key("failed-setup-passes"), "setup "+p.setup+" but the run is not reported failed", input)
	}
	if cleanupFails && (!res.Failed || res.Err == nil) {
		r.Fail("C06/verdict", key("failed-teardown-passes"), fmt.Sprintf("a setup cleanup fails but Failed()=%v Error()=%v", res.Failed, res.Err), input)
	}
	if !setupFailed && len(bodies) == 0 && p.ending != "cancel" && p.ending != "cancel-in-setup" {
		r.Fail("C06/no-iterations", key("none"), "setup succeeded but no iteration ran", input)
	}
	r.Distinct(classOf(p) + "/" + p.ending + "/" + p.mode)
}

func atoi(s string) int { n, _ := strconv.Atoi(s); return n }

func expectedCleanups(it iter) []int {
	n := len(it.before)
	if !stops(it.outcome) {
		n += len(it.after)
	}
	var w []int
	for k := n - 1; k >= 0; k-- {
		w = append(w, k)
	}
	return w
}

func cleanupRelation(got, want []int) string {
	switch {
	case len(got) < len(want):
		return "missing"
	case len(got) > len(want):
		return "too-many"
	}
	return "wrong-order"
}

func classOf(p program) string {
	n := 0
	for _, it := range p.iters {
		n += len(it.before) + len(it.after)
	}
	outs := ""
	for _, it := range p.iters {
		outs += it.outcome[:1]
	}
	return fmt.Sprintf("setup=%s sc=%d its=%s cl=%d", p.setup, len(p.setupCleanups), outs, n)
}

func lists(alpha []string, maxLen int) [][]string {
	out := [][]string{nil}
	var rec func(cur []string)
	rec = func(cur []string) {
		if len(cur) == maxLen {
			return
		}
		for _, a := range alpha {
			n := append(append([]string(nil), cur...), a)
			out = append(out, n)
			rec(n)
		}
	}
	rec(nil)
	return out
}

func iterAlphabet(full bool) []iter {
	cl := []string{bOK, bPanic, bFailNow}
	var out []iter
	maxB := 1
	if full {
		maxB = 2
	}
	for _, o := range []string{bOK, bFail, bFailNow, bPanic} {
		for _, b := range lists(cl, maxB) {
			for _, a := range lists(cl, 1) {
				out = append(out, iter{before: b, outcome: o, after: a})
			}
		}
	}
	return out
}

func suiteSetup(full bool) hlib.Suite {
	return hlib.Suite{Name: fmt.Sprintf("programs/setup-variants/full=%v", full), Weight: 2, Run: func(r *hlib.Rec) {
		bodies := [][]iter{
			{{outcome: bOK}},
			{{before: []string{bOK, bPanic}, outcome: bFailNow, after: []string{bOK}}, {before: []string{bFailNow}, outcome: bOK}},
			{{outcome: bPanic}, {before: []string{bOK}, outcome: bFail, after: []string{bPanic}}, {outcome: bOK}},
			// a cleanup in the middle, and a body, that panic with values whose own String / Error method panics: the other
			// cleanups still run, the next iteration still starts
			{{before: []string{bOK, bPanicBadS, bOK}, outcome: bOK}, {before: []string{bOK, bPanicBadE, bOK}, outcome: bPanicBadS}, {before: []string{bOK}, outcome: bPanicBadE}},
		}
		for _, setup := range []string{bOK, bFail, bFailNow, bPanic, bPanicE, bPanicBadS, bPanicBadE} {
			for _, sc := range lists([]string{bOK, bFail, bFailNow, bPanic, bPanicE, bPanicBadS, bPanicBadE}, 2) {
				for _, its := range bodies {
					for _, mode := range []string{"constant", "users"} {
						for _, ending := range []string{"duration", "limit", "cancel", "timeout", "cancel-in-setup"} {
							for _, conc := range []int{1, 2} {
								if !r.Mine() {
									continue
								}
								if r.Expired() {
									return
								}
								if !full && conc == 2 && ending != "duration" {
									continue
								}
								p := program{setup: setup, setupCleanups: sc, iters: its, mode: mode, ending: ending, conc: conc}
								if ending == "timeout" {
									p.iters = append(append([]iter(nil), its...), iter{before: []string{bOK}, outcome: bBlock})
								}
								check(r, p)
							}
						}
					}
				}
			}
		}
		r.Sample("setup in {ok,Fail,FailNow,panic} x 0-2 setup cleanups each in {ok,Fail,FailNow,panic} x 3 body scripts x {constant,users} x {duration,limit,cancel,timeout} x concurrency {1,2}")
	}}
}

func suiteBodies(full bool) hlib.Suite {
	return hlib.Suite{Name: fmt.Sprintf("programs/body-scripts/full=%v", full), Weight: 4, Run: func(r *hlib.Rec) {
		alpha := iterAlphabet(full)
		pairAlpha := alpha
		if !full {
			pairAlpha = nil
			for i, it := range alpha {
				if i%3 == 0 {
					pairAlpha = append(pairAlpha, it)
				}
			}
		}
		run := func(its []iter) bool {
			for _, mode := range []string{"constant", "users"} {
				for _, ending := range []string{"duration", "limit", "cancel"} {
					if !r.Mine() {
						continue
					}
					if r.Expired() {
						return false
					}
					conc := 1
					if mode == "users" && ending == "duration" {
						conc = 2
					}
					check(r, program{setup: bOK, setupCleanups: []string{bOK}, iters: its, mode: mode, ending: ending, conc: conc})
					if len(its) == 1 && ending != "cancel" {
						check(r, program{setup: bOK, setupCleanups: []string{bOK}, iters: its, mode: mode, ending: ending, conc: conc, combined: true})
					}
				}
			}
			return true
		}
		for _, a := range alpha {
			if !run([]iter{a}) {
				return
			}
		}
		for _, a := range pairAlpha {
			for _, b := range pairAlpha {
				if !run([]iter{a, b}) {
					return
				}
			}
		}
		r.Sample(fmt.Sprintf("%d single-iteration scripts and %d^2 pairs (registers 0-%d cleanups before and 0-1 after the failure point; outcome pass/Fail/FailNow/panic; cleanup ok/panic/FailNow) x {constant,users} x {duration,limit,cancel}", len(alpha), len(pairAlpha), map[bool]int{true: 2, false: 1}[full]))
	}}
}

const stagesYAML = `scenario: s
limits:
  max-duration: 5s
  concurrency: %d
  max-iterations: 0
  ignore-dropped: true
stages:
- duration: %s
  mode: constant
  rate: 1/100ms
  jitter: 0
  distribution: none
- duration: %s
  mode: %s
  rate: 1/100ms
  jitter: 0
  distribution: none
  concurrency: 1
- duration: 150ms
  mode: constant
  rate: 2/100ms
  jitter: 0
  distribution: none
`

// suiteStages: config-file mode. Stages follow each other without waiting for
// the previous stage's iterations, so an iteration of one stage is still running
// while later stages' workers run theirs. Every iteration's cleanups still run
// exactly once, in reverse order, after its own body; setup's cleanup runs once,
// after all of them.
func suiteStages() hlib.Suite {
	return hlib.Suite{Name: "config-file-stages/iterations-outliving-their-stage", Run: func(r *hlib.Rec) {
		for _, conc := range []int{1, 2} {
			for _, d1 := range []string{"150ms", "250ms"} {
				for _, mode2 := range []string{"constant", "users"} {
					for _, long := range []time.Duration{10 * time.Millisecond, 320 * time.Millisecond, 550 * time.Millisecond} {
						for _, outcome := range []string{bOK, bFailNow, bPanic} {
							if !r.Mine() || r.Expired() {
								continue
							}
							r.Eval()
							input := fmt.Sprintf("three stages (constant %s, %s 150ms, constant 150ms) concurrency %d; iteration 1 takes %s and ends with %s, the others 10ms; every body registers two cleanups", d1, mode2, conc, long, outcome)
							r.SampleCase(input)
							var ev []string
							rs := &hlib.RunSpec{Mode: "file", FileYAML: fmt.Sprintf(stagesYAML, conc, d1, "150ms", mode2), Quiet: true, CompletionTimeout: 2 * time.Second}
							rs.ScenarioFn = func(t *f1testing.T) f1testing.RunFn {
								ev = append(ev, "setup")
								t.Cleanup(func() { ev = append(ev, "setup-cleanup") })
								return func(t *f1testing.T) {
									id := t.Iteration
									ev = append(ev, "begin "+id)
									t.Cleanup(func() { ev = append(ev, "cleanupA "+id) })
									t.Cleanup(func() { ev = append(ev, "cleanupB "+id) })
									if id == "1" {
										vtime.Sleep(long)
										ev = append(ev, "end "+id)
										switch outcome {
										case bFailNow:
											t.FailNow()
										case bPanic:
											panic("body panics")
										}
										return
									}
									vtime.Sleep(10 * time.Millisecond)
									ev = append(ev, "end "+id)
								}
							}
							res := hlib.RunOnce(rs, -1, 0, 60*time.Second)
							if res.BuildErr != nil {
								r.Fail("C06/harness", "build", res.BuildErr.Error(), input)
								continue
							}
							if res.Out.Status != vrt.StOK {
								r.Fail("C06/run-broken", "stages", res.Out.Status.String()+": "+res.Out.Crash+res.Out.Detail, input)
								continue
							}
							pos := map[string][]int{}
							begun := 0
							for i, e := range ev {
								pos[e] = append(pos[e], i)
								if strings.HasPrefix(e, "begin ") {
									begun++
								}
							}
							if begun < 4 {
								r.Fail("C06/harness", "too-few-iterations", fmt.Sprintf("only %d iterations ran", begun), input)
							}
							for e, at := range pos {
								if !strings.HasPrefix(e, "begin ") {
									continue
								}
								id := strings.TrimPrefix(e, "begin ")
								a, b, end := pos["cleanupA "+id], pos["cleanupB "+id], pos["end "+id]
								switch {
								case len(at) != 1:
									r.Fail("C06/harness", "duplicate-iteration-id", fmt.Sprintf("iteration id %s began %d times", id, len(at)), input)
								case len(a) != 1 || len(b) != 1:
									r.Fail("C06/cleanup-exactly-once", fmt.Sprintf("stages/ran-%d-and-%d-times", min(len(a), 2), min(len(b), 2)), fmt.Sprintf("iteration %s: its first cleanup ran %d times and its second %d times (events: %v)", id, len(a), len(b), ev), input)
								case len(end) != 1 || b[0] < end[0] || a[0] < b[0]:
									r.Fail("C06/cleanup-order", "stages", fmt.Sprintf("iteration %s: body end at %v, second-registered cleanup at %v, first-registered at %v (events: %v)", id, end, b, a, ev), input)
								}
							}
							if sc := pos["setup-cleanup"]; len(pos["setup"]) != 1 || len(sc) != 1 || sc[0] != len(ev)-1 {
								r.Fail("C06/setup-cleanup-last", "stages", fmt.Sprintf("setup ran %d times, its cleanup at %v of %d events", len(pos["setup"]), sc, len(ev)), input)
							}
							r.Distinct(fmt.Sprintf("conc=%d d1=%s mode2=%s long=%s %s", conc, d1, mode2, long, outcome))
						}
					}
				}
			}
		}
		r.Sample("three config-file stages; iteration 1 of stage 1 takes 10/320/550 ms and so ends during stage 1, 2 or 3")
	}}
}

// suiteNested: a cleanup that registers a further cleanup while the cleanups are
// running (a helper that cleans up after itself). The cleanups registered by the
// body (and by setup) still run exactly once each, in reverse order.
func suiteNested() hlib.Suite {
	return hlib.Suite{Name: "cleanups-registering-cleanups-during-teardown", Run: func(r *hlib.Rec) {
		for _, n := range []int{1, 2, 3} { // cleanups registered by the body / by setup
			for which := 0; which < n; which++ { // the one that registers another during teardown
				for _, mode := range []string{"constant", "users"} {
					r.Eval()
					input := fmt.Sprintf("mode=%s: %d cleanups registered; cleanup #%d (by registration order) registers one more while it runs", mode, n, which+1)
					r.SampleCase(input)
					var ev []string
					register := func(t *f1testing.T, who string) {
						for i := 0; i < n; i++ {
							i := i
							t.Cleanup(func() {
								ev = append(ev, fmt.Sprintf("%s-cleanup%d", who, i+1))
								if i == which {
									t.Cleanup(func() { ev = append(ev, who+"-late-cleanup") })
								}
							})
						}
					}
					rs := &hlib.RunSpec{Mode: mode, CompletionTimeout: time.Second, Quiet: true,
						Opts: options.RunOptions{MaxDuration: 5 * time.Second, Concurrency: 1, MaxIterations: 2, IgnoreDropped: true}}
					if mode == "constant" {
						rs.Flags = map[string]string{"rate": "1/100ms", "distribution": "none"}
					}
					rs.ScenarioFn = func(t *f1testing.T) f1testing.RunFn {
						register(t, "setup")
						return func(t *f1testing.T) {
							ev = append(ev, "body"+t.Iteration)
							register(t, "iter"+t.Iteration)
							if mode == "users" {
								vtime.Sleep(time.Millisecond)
							}
						}
					}
					res := hlib.RunOnce(rs, -1, 0, 60*time.Second)
					if res.BuildErr != nil || res.Out.Status != vrt.StOK {
						r.Fail("C06/run-broken", "nested", fmt.Sprint(res.BuildErr, res.Out.Status, res.Out.Crash), input)
						continue
					}
					count := map[string]int{}
					pos := map[string]int{}
					for i, e := range ev {
						count[e]++
						pos[e] = i
					}
					for _, who := range []string{"setup", "iter1", "iter2"} {
						for i := 1; i <= n; i++ {
							name := fmt.Sprintf("%s-cleanup%d", who, i)
							if count[name] != 1 {
								r.Fail("C06/cleanup-exactly-once", fmt.Sprintf("nested/ran-%d-times", min(count[name], 2)), fmt.Sprintf("%s ran %d times (events %v)", name, count[name], ev), input)
							} else if i > 1 && pos[name] > pos[fmt.Sprintf("%s-cleanup%d", who, i-1)] {
								r.Fail("C06/cleanup-order", "nested", fmt.Sprintf("%s ran after the cleanup registered before it (events %v)", name, ev), input)
							}
						}
					}
					r.Distinct(fmt.Sprintf("%s n=%d which=%d", mode, n, which))
				}
			}
		}
	}}
}

// suiteGoexit: a body that ends its goroutine (an assertion made on a standard
// library testing.T inside the iteration does that). The worker is gone, but the
// cleanups the iteration had registered still run exactly once, in reverse order,
// and the run still ends with setup's cleanups.
func suiteGoexit() hlib.Suite {
	return hlib.Suite{Name: "programs/body-ends-its-goroutine", Run: func(r *hlib.Rec) {
		for _, before := range lists([]string{bOK, bPanic}, 2) {
			for _, first := range []bool{true, false} {
				for _, mode := range []string{"constant", "users"} {
					for _, conc := range []int{1, 2} {
						for _, ending := range []string{"duration", "cancel"} {
							if len(before) == 0 || !r.Mine() {
								continue
							}
							its := []iter{{before: before, outcome: bGoexit, after: []string{bOK}}, {before: []string{bOK}, outcome: bOK}}
							if !first {
								its[0], its[1] = its[1], its[0]
							}
							check(r, program{setup: bOK, setupCleanups: []string{bOK}, iters: its, mode: mode, ending: ending, conc: conc})
						}
					}
				}
			}
		}
	}}
}

// suiteSecondRun: the same registered scenario run twice (a program embedding f1
// that executes more than once). Each run has its own setup, exactly once and
// before its iterations, and its own setup cleanups after them.
func suiteSecondRun() hlib.Suite {
	return hlib.Suite{Name: "same-registered-scenario-run-twice", Run: func(r *hlib.Rec) {
		for _, mode := range []string{"constant", "users"} {
			for _, firstSetup := range []string{bOK, bFail, bPanic} {
				for _, secondSetup := range []string{bOK, bFailNow} {
					if !r.Mine() {
						continue
					}
					r.Eval()
					input := fmt.Sprintf("mode=%s: one registered scenario, two runs; setup of run 1 ends %s, of run 2 %s", mode, firstSetup, secondSetup)
					r.SampleCase(input)
					var ev []string
					setups := 0
					scs := scenarios.New().Add(&scenarios.Scenario{Name: "s", ScenarioFn: func(t *f1testing.T) f1testing.RunFn {
						setups++
						n := setups
						ev = append(ev, fmt.Sprintf("setup%d", n))
						t.Cleanup(func() { ev = append(ev, fmt.Sprintf("setup-cleanup%d", n)) })
						act(t, map[int]string{1: firstSetup, 2: secondSetup}[n])
						return func(t *f1testing.T) {
							ev = append(ev, fmt.Sprintf("body-of-setup%d", n))
							if mode == "users" {
								vtime.Sleep(50 * time.Millisecond)
							}
						}
					}})
					for run, setup := range []string{firstSetup, secondSetup} {
						ev = nil
						rs := &hlib.RunSpec{Mode: mode, CompletionTimeout: time.Second, Quiet: true, Scenarios: scs,
							Opts: options.RunOptions{MaxDuration: 5 * time.Second, Concurrency: 1, MaxIterations: 2, IgnoreDropped: true}}
						if mode == "constant" {
							rs.Flags = map[string]string{"rate": "1/100ms", "distribution": "none"}
						}
						res := hlib.RunOnce(rs, -1, 0, 60*time.Second)
						if res.BuildErr != nil || res.Out.Status != vrt.StOK {
							r.Fail("C06/run-broken", "second-run", fmt.Sprint(res.BuildErr, res.Out.Status, res.Out.Crash), input)
							break
						}
						n := run + 1
						want := []string{fmt.Sprintf("setup%d", n)}
						if setup == bOK {
							want = append(want, fmt.Sprintf("body-of-setup%d", n), fmt.Sprintf("body-of-setup%d", n))
						}
						want = append(want, fmt.Sprintf("setup-cleanup%d", n))
						if fmt.Sprint(ev) != fmt.Sprint(want) {
							r.Fail("C06/setup-once", fmt.Sprintf("per-run/run-%d", n), fmt.Sprintf("run %d of the scenario: events %v, expected %v", n, ev, want), input)
						}
						if (setup != bOK) != res.Failed {
							r.Fail("C06/verdict", fmt.Sprintf("per-run/run-%d", n), fmt.Sprintf("run %d: setup ends %s, Failed()=%v", n, setup, res.Failed), input)
						}
					}
					r.Distinct(mode + firstSetup + secondSetup)
				}
			}
		}
	}}
}

func suites(tier string) []hlib.Suite {
	return []hlib.Suite{suiteSetup(true), suiteBodies(tier != "quick"), suiteStages(), suiteNested(), suiteGoexit(), suiteSecondRun()}
}

func main() { hlib.EnumMain("C06", suites) }
