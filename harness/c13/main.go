// Harness for C13 (E2): jitter varies each tick but preserves the long-run
// total, for every outcome sequence of the random variation over a 5-point
// alphabet (both extremes of cos, its zero and two interior points).
package main

import (
	"fmt"
	"math"
	"strings"
	"time"

	"github.com/form3tech-oss/f1/v2/internal/trigger/api"
	"github.com/form3tech-oss/f1/v2/internal/trigger/constant"
	"github.com/form3tech-oss/f1/v2/internal/trigger/gaussian"
	"github.com/form3tech-oss/f1/v2/internal/trigger/ramp"
	"github.com/form3tech-oss/f1/v2/internal/trigger/staged"
	"github.com/form3tech-oss/f1/v2/internal/verifharness/hlib"
	"github.com/form3tech-oss/f1/v2/internal/verifshim/vrand"
)

var (
	now     = time.Date(2024, 1, 1, 0, 0, 0, 0, time.UTC)
	uAlpha  = []float64{0, 0.125, 0.25, 0.375, 0.5}
	jitters = []float64{0, 0.01, 0.5, 0.99, 1, 20, 50, 99, 99.9}
)

type rateSeq struct {
	name string
	f    func(k int) int
}

var seqs = []rateSeq{
	{"const0", func(int) int { return 0 }},
	{"const1", func(int) int { return 1 }},
	{"const3", func(int) int { return 3 }},
	{"const10", func(int) int { return 10 }},
	{"const1000", func(int) int { return 1000 }},
	{"burst", func(k int) int {
		if k == 2 {
			return 50
		}
		return 0
	}},
	{"alternate", func(k int) int { return (k % 2) * 7 }},
	{"ramp", func(k int) int { return 2 * k }},
	// rates beyond 32 bits (int is 64 bits wide here)
	{"const2^31-1", func(int) int { return 1<<31 - 1 }},
	{"const3e9", func(int) int { return 3_000_000_000 }},
	{"const2^40", func(int) int { return 1 << 40 }},
}

// builders: the same oracle on the rate functions the trigger builders return
// (distribution none), against the same builder with jitter 0 evaluated at the
// same instants - whatever a builder puts around the jitter is covered too.
type builder struct {
	name  string
	build func(j float64) (*api.Rates, error)
}

var builders = []builder{
	{"constant 10/1s", func(j float64) (*api.Rates, error) { return constant.CalculateConstantRate(j, "10/1s", "none") }},
	{"constant 3/100ms", func(j float64) (*api.Rates, error) { return constant.CalculateConstantRate(j, "3/100ms", "none") }},
	{"constant 1000/1s", func(j float64) (*api.Rates, error) { return constant.CalculateConstantRate(j, "1000/1s", "none") }},
	{"staged 0s:5,3s:40,6s:0 every 1s", func(j float64) (*api.Rates, error) {
		return staged.CalculateStagedRate(j, time.Second, "0s:5,3s:40,6s:0", "none", nil)
	}},
	// ticks longer and shorter than a second
	{"staged 0s:50,40s:400,80s:0 every 10s", func(j float64) (*api.Rates, error) {
		return staged.CalculateStagedRate(j, 10*time.Second, "0s:50,40s:400,80s:0", "none", nil)
	}},
	{"staged 0s:5,1s:40 every 100ms", func(j float64) (*api.Rates, error) {
		return staged.CalculateStagedRate(j, 100*time.Millisecond, "0s:5,1s:40", "none", nil)
	}},
	{"constant 1000/5m", func(j float64) (*api.Rates, error) { return constant.CalculateConstantRate(j, "1000/5m", "none") }},
	{"ramp 0/10s-600/10s over 2m", func(j float64) (*api.Rates, error) {
		return ramp.CalculateRampRate("0/10s", "600/10s", "none", 2*time.Minute, j)
	}},
	{"gaussian 50000 per 10m, peak 5m, sigma 2m, every 90s", func(j float64) (*api.Rates, error) {
		return gaussian.CalculateGaussianRate(50000, j, 10*time.Minute, 90*time.Second, 5*time.Minute, 2*time.Minute, "", "none")
	}},
	{"ramp 0/1s-60/1s over 6s", func(j float64) (*api.Rates, error) {
		return ramp.CalculateRampRate("0/1s", "60/1s", "none", 6*time.Second, j)
	}},
	// a flat bell whose ticks 6 s .. 12 s (offset below) cross the end of a repetition with plenty still to request:
	// what is owed at the last tick of a window is carried into the next
	{"gaussian 6000 per 10s, peak 5s, sigma 1h, every 1s, ticks from +6s across the end of the window", func(j float64) (*api.Rates, error) {
		return gaussian.CalculateGaussianRate(6000, j, 10*time.Second, time.Second, 5*time.Second, time.Hour, "", "none")
	}},
	{"gaussian 5000 per 10s, peak 5s, sigma 2s, every 1s", func(j float64) (*api.Rates, error) {
		return gaussian.CalculateGaussianRate(5000, j, 10*time.Second, time.Second, 5*time.Second, 2*time.Second, "", "none")
	}},
}

// offsetOf: where a builder's first tick lies relative to the (window-aligned) origin
func offsetOf(name string) time.Duration {
	if strings.Contains(name, "ticks from +6s") {
		return 6 * time.Second
	}
	return 0
}

func builderSuite(length int) hlib.Suite {
	return hlib.Suite{Name: fmt.Sprintf("jitter/through-the-trigger-builders/length=%d", length), Run: func(r *hlib.Rec) {
		total := 1
		for i := 0; i < length; i++ {
			total *= len(uAlpha)
		}
		defer func() { vrand.Script = nil }()
		for _, j := range []float64{0, 5, 20, 75, 99} {
			for _, b := range builders {
				if !r.Mine() {
					continue
				}
				base, err := b.build(0)
				if err != nil {
					panic(err)
				}
				ref := make([]int, length)
				rmax := 0
				for k := range ref {
					ref[k] = base.Rate(now.Add(offsetOf(b.name) + time.Duration(k)*base.IterationDuration))
					rmax = max(rmax, ref[k])
				}
				codes := total
				if j == 0 {
					codes = 1
				}
				for code := 0; code < codes; code++ {
					if r.Expired() {
						return
					}
					rs, err := b.build(j)
					if err != nil {
						panic(err)
					}
					input := fmt.Sprintf("builder=%s jitter=%v random-script=%d (base %d digits, u in %v)", b.name, j, code, len(uAlpha), uAlpha)
					runCase(r, j, length, code, func(k int) int { return ref[k] }, func(k int) int { return rs.Rate(now.Add(offsetOf(b.name) + time.Duration(k)*rs.IterationDuration)) }, rmax, nil, input)
				}
				r.Distinct(fmt.Sprintf("%v %s", j, b.name))
			}
		}
	}}
}

// runCase drives length ticks of one jittered rate function under one scripted
// random sequence and checks every clause on every tick.
func runCase(r *hlib.Rec, j float64, length, code int, rateAt func(k int) int, outAt func(k int) int, rmax int, evals *int, input string) {
	r.Eval()
	jf := j / 100
	bound := (jf*float64(rmax) + 0.5) / (1 - jf)
	c := code
	draws := 0
	vrand.Script = func() float64 {
		u := uAlpha[c%len(uAlpha)]
		c /= len(uAlpha)
		draws++
		return u
	}
	r.SampleCase(input)
	balance := 0.0
	sumOut, sumRate := 0, 0
	for k := 0; k < length; k++ {
		rate := rateAt(k)
		out := outAt(k)
		requested := float64(rate) + balance
		if out < 0 {
			r.Fail("C13/negative", "negative", fmt.Sprintf("tick %d: output %d", k, out), input)
		}
		if j == 0 && out != rate {
			r.Fail("C13/zero-jitter-identity", "changed", fmt.Sprintf("tick %d: %d became %d", k, rate, out), input)
		}
		if requested >= 0 {
			if d := math.Abs(float64(out) - requested); d > jf*requested+0.5+1e-9+1e-14*requested { // the last term: float64 rounding at rates beyond 2^40
				r.Fail("C13/single-value", "outside-jitter-band", fmt.Sprintf("tick %d: output %d, rate+carry %.4f, allowed deviation %.4f", k, out, requested, jf*requested+0.5), input)
			}
		} else if out != 0 {
			r.Fail("C13/single-value", "negative-request-not-zero", fmt.Sprintf("tick %d: output %d for rate+carry %.4f", k, out, requested), input)
		}
		balance = requested - float64(out)
		sumOut += out
		sumRate += rate
		if d := math.Abs(float64(sumOut - sumRate)); d > bound+1e-6+1e-13*float64(rmax) {
			r.Fail("C13/running-total", "outside-fixed-bound", fmt.Sprintf("after tick %d: applied %d, configured %d, fixed bound %.3f", k, sumOut, sumRate, bound), input)
		}
	}
	if evals != nil && *evals != length {
		r.Fail("C13/underlying-rate", "not-once-per-tick", fmt.Sprintf("the un-jittered rate was evaluated %d times in %d ticks", *evals, length), input)
	}
	if j == 0 && draws != 0 {
		r.Fail("C13/zero-jitter-identity", "draws", "zero jitter still draws random numbers", input)
	}
	if j != 0 && draws != length {
		r.Fail("C13/draws", "not-one-per-tick", fmt.Sprintf("%d draws for %d ticks", draws, length), input)
	}
}

func suite(length int) hlib.Suite {
	return hlib.Suite{Name: fmt.Sprintf("jitter/all-random-outcomes/length=%d", length), Run: func(r *hlib.Rec) {
		total := 1
		for i := 0; i < length; i++ {
			total *= len(uAlpha)
		}
		defer func() { vrand.Script = nil }()
		for _, j := range jitters {
			for _, sq := range seqs {
				if !r.Mine() {
					continue
				}
				rmax := 0
				for k := 0; k < length; k++ {
					if v := sq.f(k); v > rmax {
						rmax = v
					}
				}
				codes := total
				if j == 0 {
					codes = 1
				}
				for code := 0; code < codes; code++ {
					if r.Expired() {
						return
					}
					// the un-jittered rate is a stateful function (as the gaussian one is): its n-th
					// evaluation yields the n-th value, whenever it is made
					evals := 0
					fn := api.WithJitter(func(time.Time) int { v := sq.f(evals); evals++; return v }, j)
					input := fmt.Sprintf("jitter=%v rates=%s random-script=%d (base %d digits, u in %v)", j, sq.name, code, len(uAlpha), uAlpha)
					runCase(r, j, length, code, sq.f, func(int) int { return fn(now) }, rmax, &evals, input)
					if code%len(uAlpha) == 0 && (sq.name == "const3" || sq.name == "burst" || sq.name == "const1000") {
						// the same with ticks five minutes apart (what is carried does not expire)
						evals = 0
						fn = api.WithJitter(func(time.Time) int { v := sq.f(evals); evals++; return v }, j)
						runCase(r, j, length, code, sq.f, func(k int) int { return fn(now.Add(time.Duration(k) * 5 * time.Minute)) }, rmax, &evals, input+" ticks 5m apart")
					}
					if code < 8 {
						r.Distinct(fmt.Sprintf("%v %s %d", j, sq.name, code))
					}
				}
			}
		}
		r.Sample(map[string]any{"jitter_percent": jitters, "u": uAlpha, "rate_sequences": len(seqs), "length": length})
	}}
}

func suites(tier string) []hlib.Suite {
	if tier == "quick" {
		return []hlib.Suite{suite(7), builderSuite(7)}
	}
	return []hlib.Suite{suite(9), builderSuite(9)}
}

func main() { hlib.EnumMain("C13", suites) }
