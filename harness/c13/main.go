// Harness for C13 (E2): jitter varies each tick but preserves the long-run
// total, for every outcome sequence of the random variation over a 5-point
// alphabet (both extremes of cos, its zero and two interior points).
package main

import (
	"fmt"
	"math"
	"time"

	"github.com/form3tech-oss/f1/v2/internal/trigger/api"
	"github.com/form3tech-oss/f1/v2/internal/verifharness/hlib"
	"github.com/form3tech-oss/f1/v2/internal/verifshim/vrand"
)

var (
	now     = time.Date(2024, 1, 1, 0, 0, 0, 0, time.UTC)
	uAlpha  = []float64{0, 0.125, 0.25, 0.375, 0.5}
	jitters = []float64{0, 0.01, 0.5, 0.99, 1, 20, 50, 99, 99.9}
)

type rateSeq struct {
	name string
	f    func(k int) int
}

var seqs = []rateSeq{
	{"const0", func(int) int { return 0 }},
	{"const1", func(int) int { return 1 }},
	{"const3", func(int) int { return 3 }},
	{"const10", func(int) int { return 10 }},
	{"const1000", func(int) int { return 1000 }},
	{"burst", func(k int) int {
		if k == 2 {
			return 50
		}
		return 0
	}},
	{"alternate", func(k int) int { return (k % 2) * 7 }},
	{"ramp", func(k int) int { return 2 * k }},
}

func suite(length int) hlib.Suite {
	return hlib.Suite{Name: fmt.Sprintf("jitter/all-random-outcomes/length=%d", length), Run: func(r *hlib.Rec) {
		total := 1
		for i := 0; i < length; i++ {
			total *= len(uAlpha)
		}
		defer func() { vrand.Script = nil }()
		for _, j := range jitters {
			for _, sq := range seqs {
				if !r.Mine() {
					continue
				}
				rmax := 0
				for k := 0; k < length; k++ {
					if v := sq.f(k); v > rmax {
						rmax = v
					}
				}
				jf := j / 100
				bound := (jf*float64(rmax) + 0.5) / (1 - jf)
				codes := total
				if j == 0 {
					codes = 1
				}
				for code := 0; code < codes; code++ {
					if r.Expired() {
						return
					}
					r.Eval()
					c := code
					draws := 0
					vrand.Script = func() float64 {
						u := uAlpha[c%len(uAlpha)]
						c /= len(uAlpha)
						draws++
						return u
					}
					k := 0
					// the un-jittered rate is a stateful function (as the gaussian one is): its n-th
					// evaluation yields the n-th value, whenever it is made
					evals := 0
					fn := api.WithJitter(func(time.Time) int { v := sq.f(evals); evals++; return v }, j)
					input := fmt.Sprintf("jitter=%v rates=%s random-script=%d (base %d digits, u in %v)", j, sq.name, code, len(uAlpha), uAlpha)
					r.SampleCase(input)
					balance := 0.0
					sumOut, sumRate := 0, 0
					for k = 0; k < length; k++ {
						rate := sq.f(k)
						out := fn(now)
						requested := float64(rate) + balance
						if out < 0 {
							r.Fail("C13/negative", "negative", fmt.Sprintf("tick %d: output %d", k, out), input)
						}
						if j == 0 && out != rate {
							r.Fail("C13/zero-jitter-identity", "changed", fmt.Sprintf("tick %d: %d became %d", k, rate, out), input)
						}
						if requested >= 0 {
							if d := math.Abs(float64(out) - requested); d > jf*requested+0.5+1e-9 {
								r.Fail("C13/single-value", "outside-jitter-band", fmt.Sprintf("tick %d: output %d, rate+carry %.4f, allowed deviation %.4f", k, out, requested, jf*requested+0.5), input)
							}
						} else if out != 0 {
							r.Fail("C13/single-value", "negative-request-not-zero", fmt.Sprintf("tick %d: output %d for rate+carry %.4f", k, out, requested), input)
						}
						balance = requested - float64(out)
						sumOut += out
						sumRate += rate
						if d := math.Abs(float64(sumOut - sumRate)); d > bound+1e-6 {
							r.Fail("C13/running-total", "outside-fixed-bound", fmt.Sprintf("after tick %d: applied %d, configured %d, fixed bound %.3f", k, sumOut, sumRate, bound), input)
						}
					}
					if evals != length {
						r.Fail("C13/underlying-rate", "not-once-per-tick", fmt.Sprintf("the un-jittered rate was evaluated %d times in %d ticks", evals, length), input)
					}
					if j == 0 && draws != 0 {
						r.Fail("C13/zero-jitter-identity", "draws", "zero jitter still draws random numbers", input)
					}
					if j != 0 && draws != length {
						r.Fail("C13/draws", "not-one-per-tick", fmt.Sprintf("%d draws for %d ticks", draws, length), input)
					}
					if code < 8 {
						r.Distinct(fmt.Sprintf("%v %s %d", j, sq.name, code))
					}
				}
			}
		}
		r.Sample(map[string]any{"jitter_percent": jitters, "u": uAlpha, "rate_sequences": len(seqs), "length": length})
	}}
}

func suites(tier string) []hlib.Suite {
	if tier == "quick" {
		return []hlib.Suite{suite(7)}
	}
	return []hlib.Suite{suite(9)}
}

func main() { hlib.EnumMain("C13", suites) }
