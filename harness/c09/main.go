// Harness for C09 (E1): tick cadence - one rate evaluation immediately, then
// at most one per interval; each evaluation's value is that tick's request to
// the pool, unchanged. Drives the real api.NewIterationWorker on a real
// PoolManager with a virtual ticker.
package main

import (
	"flag"
	"fmt"
	"strings"
	"time"

	"github.com/prometheus/client_golang/prometheus"

	"github.com/form3tech-oss/f1/v2/internal/metrics"
	"github.com/form3tech-oss/f1/v2/internal/options"
	"github.com/form3tech-oss/f1/v2/internal/progress"
	"github.com/form3tech-oss/f1/v2/internal/trigger/api"
	"github.com/form3tech-oss/f1/v2/internal/ui"
	"github.com/form3tech-oss/f1/v2/internal/verifharness/hlib"
	"github.com/form3tech-oss/f1/v2/internal/verifshim/vatomic"
	"github.com/form3tech-oss/f1/v2/internal/verifshim/vctx"
	"github.com/form3tech-oss/f1/v2/internal/verifshim/vrt"
	"github.com/form3tech-oss/f1/v2/internal/verifshim/vtime"
	"github.com/form3tech-oss/f1/v2/internal/workers"
	"github.com/form3tech-oss/f1/v2/pkg/f1/scenarios"
	f1testing "github.com/form3tech-oss/f1/v2/pkg/f1/testing"
)

type cfg struct {
	interval time.Duration
	length   time.Duration
	profile  []int
	gated    bool          // concurrency 1 and bodies that block until the end: value = starts + drops
	slow     time.Duration // concurrency 1 and bodies that take this long (not a multiple of the interval): exact starts/drops from a reference simulation
	stall    time.Duration // the rate function itself takes this long on its 2nd and 4th evaluation (a slow ticking goroutine)
	limit    uint64        // max-iterations of the pool manager (0: none); bounds what a mis-sized request can start
	few      int           // this many workers although the profile asks for more per tick (instant bodies: each worker runs several)
}

func (c cfg) name() string {
	if c.slow > 0 {
		return fmt.Sprintf("ticker/interval=%s/length=%s/profile=%v/slow-body=%s/max-iterations=%d", c.interval, c.length, c.profile, c.slow, c.limit)
	}
	if c.stall > 0 {
		return fmt.Sprintf("ticker/interval=%s/length=%s/profile=%v/rate-function-stalls=%s", c.interval, c.length, c.profile, c.stall)
	}
	if c.few > 0 {
		return fmt.Sprintf("ticker/interval=%s/length=%s/profile=%v/workers=%d", c.interval, c.length, c.profile, c.few)
	}
	return fmt.Sprintf("ticker/interval=%s/length=%s/profile=%v/gated=%v", c.interval, c.length, c.profile, c.gated)
}

type world struct {
	stats   *progress.Stats
	started int
	gate    vatomic.Bool
}

var w *world

func scenario(c cfg) vrt.Scenario {
	body := func() {
		x := &world{stats: &progress.Stats{}}
		w = x
		vatomic.QuietAll(x.stats)
		m := metrics.NewInstance(prometheus.NewRegistry(), false, nil)
		sc := &scenarios.Scenario{Name: "s", RunFn: func(t *f1testing.T) {
			x.started++
			vrt.LogQuiet(fmt.Sprintf("begin %d", vrt.Clock()))
			if c.gated {
				vrt.WaitUntil("gate", func() bool { return x.gate.Peek() })
			}
			if c.slow > 0 {
				vtime.Sleep(c.slow)
			}
		}}
		as := workers.NewActiveScenario(sc, m, x.stats, hlib.DiscardLogger(), hlib.DiscardLogrus())
		mgr := workers.New(c.limit, as)
		k := 0
		rate := func(at time.Time) int {
			v := c.profile[k%len(c.profile)]
			k++
			vrt.LogQuiet(fmt.Sprintf("eval %d %d", vrt.Clock(), v))
			if c.stall > 0 && (k == 2 || k == 4) {
				vtime.Sleep(c.stall)
			}
			return v
		}
		conc := 1
		if c.few > 0 {
			conc = c.few
		} else if !c.gated && c.slow == 0 {
			for _, v := range c.profile {
				if v > conc {
					conc = v
				}
			}
		}
		ctx, cancel := vctx.WithTimeout(vctx.Background(), c.length)
		defer cancel()
		vrt.LogQuiet(fmt.Sprintf("start %d", vrt.Clock()))
		api.NewIterationWorker(c.interval, rate)(ctx, ui.NewDiscardOutput(), mgr, options.RunOptions{Concurrency: conc, MaxIterations: c.limit})
		vrt.LogQuiet(fmt.Sprintf("trigger-returned %d", vrt.Clock()))
		x.gate.Store(true)
		vrt.Recv(mgr.WaitForCompletion())
	}
	post := func(o *vrt.Outcome) {
		switch o.Status {
		case vrt.StDeadlock, vrt.StHorizon:
			o.Fail("C09/no-return", "blocked", o.Detail)
			return
		case vrt.StCrash:
			o.Fail("C09/crash", "panic", o.Crash)
			return
		}
		var first int64 = -1
		var startAt int64
		evals := 0
		sum := 0
		lastVal, lastAt := 0, int64(0)
		beginsAt := map[int64]int{}
		valueAt := map[int64]int{}
		for _, ev := range o.Log {
			f := strings.Fields(ev)
			var t int64
			fmt.Sscan(f[1], &t)
			switch f[0] {
			case "start":
				startAt = t
			case "eval":
				var v int
				fmt.Sscan(f[2], &v)
				if first < 0 {
					first = t
					if o.Cost == 0 && t != startAt {
						o.Fail("C09/first-evaluation", "late", fmt.Sprintf("first evaluation at %dns, triggering started at %dns", t, startAt))
					}
				}
				evals++
				if v < 0 {
					v = 0 // a negative value requests nothing
				}
				sum += v
				lastVal, lastAt = v, t
				valueAt[t] += v
				if lim := 1 + int((t-first)/int64(c.interval)); evals > lim {
					o.Fail("C09/cadence", "more-than-one-per-interval", fmt.Sprintf("%d evaluations by %dns after the first with interval %s (at most %d)", evals, t-first, c.interval, lim))
				}
			case "begin":
				beginsAt[t]++
			}
		}
		dropped := int(w.stats.Total().DroppedIterationCount)
		if w.started+dropped > sum {
			o.Fail("C09/value-is-request", "more-load-than-profile", fmt.Sprintf("started %d + dropped %d exceeds the sum of evaluated values %d", w.started, dropped, sum))
		}
		if o.Cost == 0 && c.stall == 0 {
			want := 1 + int((c.length-1)/c.interval) // ticks strictly before the deadline
			tie := c.length%c.interval == 0          // a tick due exactly at the deadline may or may not be served
			if evals != want && !(tie && evals == want+1) {
				o.Fail("C09/cadence", "skipped-or-extra-on-default-schedule", fmt.Sprintf("%d evaluations in %s with interval %s, want %d", evals, c.length, c.interval, want))
			}
			atDeadline := tie && evals == want+1 // that last evaluation raced the deadline: its request may have been refused
			if atDeadline {
				delete(valueAt, lastAt)
			}
			if w.started+dropped != sum && !(atDeadline && w.started+dropped == sum-lastVal) {
				o.Fail("C09/value-is-request", "not-unchanged", fmt.Sprintf("started %d + dropped %d, sum of evaluated values %d", w.started, dropped, sum))
			}
			if c.slow > 0 {
				ws, wd := simulate(c)
				if w.started != ws || dropped != wd {
					o.Fail("C09/value-is-request", "superseded-work", fmt.Sprintf("one slow worker: started %d dropped %d, a pool that lets each tick's value supersede what is pending gives %d and %d", w.started, dropped, ws, wd))
				}
			}
			if !c.gated && c.slow == 0 {
				for t, v := range valueAt {
					if beginsAt[t] != v {
						o.Fail("C09/value-is-request", "tick-value", fmt.Sprintf("tick at %dns evaluated to %d but %d iterations started then", t, v, beginsAt[t]))
						break
					}
				}
			}
		}
		o.Sig = fmt.Sprintf("evals=%d sum=%d started=%d dropped=%d", evals, sum, w.started, dropped)
	}
	return vrt.Scenario{Name: c.name(), Body: body, Post: post, Memo: true, Horizon: time.Minute, MaxSteps: 60000}
}

// simulate is the reference for one worker with bodies of c.slow: each tick's
// value replaces what is pending (the replaced ones are dropped), the worker
// takes pending work whenever it is idle, what is pending at the end is dropped.
func simulate(c cfg) (started, dropped int) {
	pending := 0
	busyUntil := time.Duration(-1)
	k := 0
	for t := time.Duration(0); t < c.length; t += c.interval {
		// the worker may have become idle before this tick and taken pending work
		for busyUntil >= 0 && busyUntil <= t && pending > 0 {
			pending--
			started++
			busyUntil += c.slow
		}
		if busyUntil >= 0 && busyUntil <= t {
			busyUntil = -1
		}
		dropped += pending
		pending = c.profile[k%len(c.profile)]
		k++
		if busyUntil < 0 && pending > 0 {
			pending--
			started++
			busyUntil = t + c.slow
		}
	}
	for busyUntil >= 0 && busyUntil < c.length && pending > 0 {
		pending--
		started++
		busyUntil += c.slow
	}
	dropped += pending
	return
}

func scenariosFor(tier string) []vrt.Scenario {
	var out []vrt.Scenario
	ms := time.Millisecond
	intervals := []time.Duration{100 * ms, 250 * ms, time.Second}
	profiles := [][]int{{1}, {3}, {2, 0, 1, 3}}
	b := 1
	if tier != "quick" {
		b = 3
	}
	for _, p := range [][]int{{3, 0, 0, 0, 0}, {2, 0, 1, 3}, {5, 1, 2, 1}} { // the last: a burst, then smaller positive values while the burst is still pending
		s := scenario(cfg{interval: 100 * ms, length: 450 * ms, profile: p, slow: 130 * ms})
		s.Bound = b
		out = append(out, s)
		// the same with a max-iterations limit that is never reached: the limit changes nothing about what a tick requests
		sl := scenario(cfg{interval: 100 * ms, length: 450 * ms, profile: p, slow: 130 * ms, limit: 1000})
		sl.Bound = b
		out = append(out, sl)
	}
	{
		// a stalling rate function: ticks are served late, but never more often than one per interval
		s := scenario(cfg{interval: 100 * ms, length: 950 * ms, profile: []int{1}, stall: 60 * ms})
		s.Bound = b
		out = append(out, s)
	}
	// intervals that are not whole milliseconds (and below one millisecond)
	for _, iv := range []time.Duration{1900 * time.Microsecond, 2500 * time.Microsecond, 700 * time.Microsecond, 100900 * time.Microsecond, 1500 * time.Nanosecond} {
		s := scenario(cfg{interval: iv, length: iv*9/2 + 1, profile: []int{2, 0, 1, 3}})
		s.Bound = b
		s.Delay = true
		s.Name += "/policy=delay"
		out = append(out, s)
	}
	out = append(out, scenario(cfg{interval: 100 * ms, length: 250*ms + ms, profile: []int{2, 0, 1, 3}}).WithPlainPoints(b))
	// negative values request nothing; values above the concurrency are requested in full (one worker runs several per tick)
	for _, c := range []cfg{{interval: 100 * ms, length: 350 * ms, profile: []int{-3, 2, -1, 1}, limit: 6}, {interval: 100 * ms, length: 250 * ms, profile: []int{5, 3}, few: 2}} {
		s := scenario(c)
		s.Bound = b
		s.Delay = true
		s.Name += "/policy=delay"
		out = append(out, s)
	}
	for _, iv := range intervals {
		lengths := []time.Duration{iv / 2, iv, iv*5/2 + ms, 3*iv - ms}
		if tier == "quick" {
			lengths = []time.Duration{iv / 2, iv*5/2 + ms}
		}
		for _, L := range lengths {
			for pi, p := range profiles {
				for _, gated := range []bool{false, true} {
					if tier == "quick" && (pi == 1 || (gated && pi == 0)) {
						continue
					}
					s := scenario(cfg{interval: iv, length: L, profile: p, gated: gated})
					s.Bound = b
					maxv := 0
					for _, v := range p {
						if v > maxv {
							maxv = v
						}
					}
					if !gated && maxv >= 3 {
						s.Delay = true
						s.Name += "/policy=delay"
					}
					out = append(out, s)
				}
			}
		}
	}
	return out
}

// -prop C02: the slow-worker scenarios only, as a part of C02's check - every value the
// ticking worker evaluates, zero included, reaches the pool and supersedes what is pending
// (the pools harness drives the pool below the ticking worker). Findings are keyed C02/...
var prop = flag.String("prop", "C09", "C09|C02")

func scenariosForProp(tier string) []vrt.Scenario {
	all := scenariosFor(tier)
	if *prop != "C02" {
		return all
	}
	var out []vrt.Scenario
	for _, sc := range all {
		if !strings.Contains(sc.Name, "/slow-body=") {
			continue
		}
		post := sc.Post
		sc.Post = func(o *vrt.Outcome) {
			post(o)
			for i := range o.Violations {
				o.Violations[i].Key = strings.Replace(o.Violations[i].Key, "C09/", "C02/ticking-worker/", 1)
			}
		}
		out = append(out, sc)
	}
	return out
}

func main() { vrt.Main(*prop, scenariosForProp) }
