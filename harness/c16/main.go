// Harness for C16 (E2 over configurations, each run through the real Run.Do on
// the default virtual-time schedule): exported metrics mirror the run and
// carry the right labels.
package main

import (
	"bytes"
	"encoding/json"
	"fmt"
	"io"
	"os"
	"os/exec"
	"runtime"
	"net"
	"net/http"
	"net/http/httptest"
	"sort"
	"strconv"
	"strings"
	"sync"
	"time"

	"github.com/prometheus/common/expfmt"

	"github.com/prometheus/client_golang/prometheus"
	dto "github.com/prometheus/client_model/go"

	"github.com/form3tech-oss/f1/v2/internal/envsettings"
	"github.com/form3tech-oss/f1/v2/internal/metrics"
	"github.com/form3tech-oss/f1/v2/internal/options"
	"github.com/form3tech-oss/f1/v2/internal/verifharness/hlib"
	"github.com/form3tech-oss/f1/v2/internal/verifshim/vctx"
	"github.com/form3tech-oss/f1/v2/internal/verifshim/vrt"
	"github.com/form3tech-oss/f1/v2/internal/verifshim/vtime"
	"github.com/form3tech-oss/f1/v2/pkg/f1"
	f1testing "github.com/form3tech-oss/f1/v2/pkg/f1/testing"
)

var keyAlpha = []string{"a", "b", "id", "zone", "Zone", "A", "id1", "a_b"} // incl. keys that differ only in case, and a key that is another's prefix followed by a digit / an underscore

// mix: how one run behaves
type mix struct {
	name  string
	fails map[int]bool // iteration ids that fail
	iters uint64       // max-iterations
	drops bool         // two requests per tick for one slow worker: the second is dropped
	setup string       // ok|fail
	// the last iteration's body ends its goroutine (runtime.Goexit, what FailNow of a standard-library testing.T
	// inside the body does): however such an iteration is counted, the result and the metric agree
	goexit bool
}

var mixes = []mix{
	{name: "3pass", iters: 3},
	{name: "2pass1fail", iters: 3, fails: map[int]bool{2: true}},
	{name: "allfail", iters: 2, fails: map[int]bool{1: true, 2: true}},
	{name: "drops", iters: 3, drops: true, fails: map[int]bool{1: true}},
	{name: "setupfail", iters: 3, setup: "fail"},
	{name: "1pass", iters: 1},
	{name: "setuppanic", iters: 2, setup: "panic"},
	{name: "last-body-goexits", iters: 3, goexit: true, fails: map[int]bool{1: true}},
}

type series struct {
	labels map[string]string
	count  uint64
	sum    float64
}

func gather(reg *prometheus.Registry, name string) []series {
	mfs, err := reg.Gather()
	if err != nil {
		panic(err)
	}
	var out []series
	for _, mf := range mfs {
		if mf.GetName() != name {
			continue
		}
		for _, m := range mf.GetMetric() {
			s := series{labels: map[string]string{}}
			for _, l := range m.GetLabel() {
				s.labels[l.GetName()] = l.GetValue()
			}
			var sm *dto.Summary = m.GetSummary()
			s.count, s.sum = sm.GetSampleCount(), sm.GetSampleSum()
			out = append(out, s)
		}
	}
	return out
}

// alternate: odd-numbered runs of a sequence use another scenario name
var alternate bool

// useGlobal: run against the process-wide metrics instance and the default registry
var useGlobal bool

func checkRuns(r *hlib.Rec, labels map[string]string, scenario string, runs []mix, rep int, enabled bool) {
	alternate = rep%2 == 1
	r.Eval()
	reg := prometheus.NewRegistry()
	m := metrics.NewInstance(reg, enabled, labels)
	if useGlobal {
		// the process-wide instance (what f1.New sets up, and what T.Time records into)
		reg = prometheus.DefaultRegisterer.(*prometheus.Registry)
		m = metrics.Instance()
	}
	var lk []string
	for k := range labels {
		lk = append(lk, k)
	}
	sort.Strings(lk)
	var rn []string
	for _, x := range runs {
		rn = append(rn, x.name)
	}
	input := fmt.Sprintf("labels=%v scenario=%s runs=%v iteration-metrics-enabled=%v", lk, scenario, rn, enabled)
	if useGlobal {
		input += " process-wide-metrics-instance"
	}
	r.SampleCase(input)
	base := scenario
	for ri, mx := range runs {
		passes, failsN := uint64(0), uint64(0)
		// consecutive runs on one instance are not always runs of the same scenario
		scenario := base
		if alternate && ri%2 == 1 {
			scenario = base + "-other"
		}
		rs := &hlib.RunSpec{Mode: "constant", Quiet: true, Metrics: m, Scenario: scenario, CompletionTimeout: time.Second,
			Flags: map[string]string{"rate": "1/100ms", "distribution": "none"},
			Opts:  options.RunOptions{MaxDuration: 10 * time.Second, Concurrency: 1, MaxIterations: mx.iters, IgnoreDropped: true}}
		if mx.drops {
			rs.Flags["rate"] = "2/100ms"
		}
		mx := mx
		rs.ScenarioFn = func(t *f1testing.T) f1testing.RunFn {
			if mx.setup == "fail" {
				t.FailNow()
			}
			if mx.setup == "panic" {
				panic("setup panics")
			}
			return func(t *f1testing.T) {
				id, _ := strconv.Atoi(t.Iteration)
				if mx.drops {
					vtime.Sleep(150 * time.Millisecond)
				}
				// stages timed by the body (also under an empty name) are not iterations
				t.Time("", func() {})
				t.Time("step", func() {})
				if mx.goexit && uint64(id) == mx.iters {
					runtime.Goexit()
				}
				if mx.fails[id] {
					failsN++
					t.Fail()
				} else {
					passes++
				}
				if alternate && uint64(id) == mx.iters {
					// the handle's exported name field is the body's to scribble on: the run's series are named after the scenario
					t.Scenario = "renamed-by-the-last-body"
				}
			}
		}
		res := hlib.RunOnce(rs, -1, 0, 60*time.Second)
		if res.BuildErr != nil {
			panic(res.BuildErr)
		}
		if res.Out.Status != vrt.StOK {
			r.Fail("C16/run-broken", mx.name, res.Out.Status.String()+": "+res.Out.Detail+res.Out.Crash, input)
			return
		}
		at := fmt.Sprintf("after run %d (%s)", ri+1, mx.name)
		// iteration family
		got := map[string]uint64{}
		for _, s := range gather(reg, "form3_loadtest_iteration") {
			if s.labels["stage"] != "iteration" {
				continue
			}
			got[s.labels["result"]] += s.count
			checkLabels(r, s.labels, labels, scenario, "iteration", input, at)
		}
		if !enabled {
			// iteration metrics switched off (what the CLI does without a push gateway): nothing may be exported for iterations
			if got["success"]+got["fail"]+got["dropped"] != 0 {
				r.Fail("C16/iteration-counts", "exported-although-disabled", fmt.Sprintf("%s: %v", at, got), input)
			}
		} else if got["success"] != res.Success || got["fail"] != res.Fail || got["dropped"] != res.Dropped {
			kind := "differs-from-result"
			if ri > 0 && (got["success"] > res.Success || got["fail"] > res.Fail || got["dropped"] > res.Dropped) {
				kind = "earlier-run-mixed-in"
			}
			r.Fail("C16/iteration-counts", kind, fmt.Sprintf("%s: metric has success=%d fail=%d dropped=%d, the result reports %d/%d/%d", at, got["success"], got["fail"], got["dropped"], res.Success, res.Fail, res.Dropped), input)
		}
		if !mx.goexit && (res.Success != passes || res.Fail != failsN) {
			r.Fail("C16/result-vs-truth", "mismatch", fmt.Sprintf("%s: result %d/%d, bodies passed %d failed %d", at, res.Success, res.Fail, passes, failsN), input)
		}
		if mx.drops && res.Dropped == 0 {
			r.Fail("C16/harness", "no-drops", "the drops mix produced no drop: the scenario does not exercise the dropped label", input)
		}
		// setup family
		var total uint64
		for _, s := range gather(reg, "form3_loadtest_setup") {
			total += s.count
			want := "success"
			if mx.setup == "fail" || mx.setup == "panic" {
				want = "fail"
			}
			if s.count > 0 && s.labels["result"] != want {
				r.Fail("C16/setup-label", "wrong-result", fmt.Sprintf("%s: setup sample labelled %q, setup outcome was %q", at, s.labels["result"], want), input)
			}
			checkLabels(r, s.labels, labels, scenario, "setup", input, at)
		}
		if total != 1 {
			r.Fail("C16/setup-count", fmt.Sprint(total), fmt.Sprintf("%s: setup metric holds %d samples, want exactly 1", at, total), input)
		}
	}
	if rep == 0 {
		r.Distinct(fmt.Sprintf("%d labels, %s, %v", len(labels), scenario, rn))
	}
}

func checkLabels(r *hlib.Rec, got, want map[string]string, scenario, family, input, at string) {
	if got["test"] != scenario {
		r.Fail("C16/labels", family+"-test-label", fmt.Sprintf("%s: series has test=%q, scenario is %q", at, got["test"], scenario), input)
	}
	for k, v := range want {
		if gv, ok := got[k]; !ok || gv != v {
			kind := "missing"
			if ok {
				kind = "paired-with-another-value"
			}
			r.Fail("C16/labels", family+"-"+kind, fmt.Sprintf("%s: static label %s=%q, configured %q (series %v)", at, k, got[k], v, got), input)
		}
	}
}

func suite(reps int, maxRuns int) hlib.Suite {
	return hlib.Suite{Name: fmt.Sprintf("labels<=3-of-4/mixes/runs<=%d/repetitions=%d", maxRuns, reps), Run: func(r *hlib.Rec) {
		for mask := 0; mask < 1<<len(keyAlpha); mask++ {
			labels := map[string]string{}
			for i, k := range keyAlpha {
				if mask&(1<<i) != 0 {
					labels[k] = "v_" + k
					if i == 1 && mask&1 != 0 {
						labels[k] = "" // a configured label whose value is empty is still a label of every series
					}
				}
			}
			if len(labels) > 3 {
				continue
			}
			for _, scen := range []string{"s", "s-2"} {
				var seqs [][]mix
				for _, a := range mixes {
					seqs = append(seqs, []mix{a})
				}
				if maxRuns >= 2 {
					seqs = append(seqs, []mix{mixes[1], mixes[0]}, []mix{mixes[3], mixes[5]}, []mix{mixes[4], mixes[0]}, []mix{mixes[2], mixes[4]}, []mix{mixes[6], mixes[0]})
				}
				if maxRuns >= 3 {
					seqs = append(seqs, []mix{mixes[3], mixes[1], mixes[5]}, []mix{mixes[0], mixes[4], mixes[2]})
				}
				for _, sq := range seqs {
					if !r.Mine() {
						continue
					}
					// Go's map iteration order cannot be enumerated: each case is built and
					// evaluated several times so an order-dependent pairing shows up
					// (repetition, not enumeration).
					for rep := 0; rep < reps; rep++ {
						if r.Expired() {
							return
						}
						l2 := map[string]string{}
						for k, v := range labels {
							l2[k] = v
						}
						checkRuns(r, l2, scen, sq, rep, true)
						if rep == 0 && len(labels) <= 1 {
							checkRuns(r, l2, scen, sq, rep, false)
						}
						if rep <= 1 && len(labels) == 0 {
							useGlobal = true
							checkRuns(r, l2, scen, sq, rep, true)
							useGlobal = false
						}
					}
				}
			}
		}
		r.Note = "map iteration order is chosen by the runtime and cannot be enumerated; every label map is rebuilt and evaluated several times (repetition, not enumeration)"
		r.Sample(map[string]any{"label_keys": keyAlpha, "scenarios": []string{"s", "s-2"}, "mixes": len(mixes), "consecutive_runs": maxRuns})
	}}
}

// builtFirstSuite: two runs on one metrics instance that are both constructed before
// either is executed. After each Do the export mirrors that run alone.
func builtFirstSuite() hlib.Suite {
	return hlib.Suite{Name: "two-runs-constructed-before-either-executes", Run: func(r *hlib.Rec) {
		for _, its := range [][2]uint64{{3, 2}, {1, 4}} {
			r.Eval()
			input := fmt.Sprintf("run A (%d iterations) and run B (%d iterations) are built with NewRun, then A.Do, then B.Do, one metrics instance", its[0], its[1])
			r.SampleCase(input)
			reg := prometheus.NewRegistry()
			m := metrics.NewInstance(reg, true, nil)
			type obs struct {
				iter  uint64
				setup uint64
			}
			var seen []obs
			out := vrt.RunDefault(func() {
				var built []*hlib.Built
				for _, n := range its {
					rs := &hlib.RunSpec{Mode: "constant", Quiet: true, Metrics: m, CompletionTimeout: time.Second,
						Flags: map[string]string{"rate": "1/100ms", "distribution": "none"},
						Opts:  options.RunOptions{MaxDuration: 10 * time.Second, Concurrency: 1, MaxIterations: n, IgnoreDropped: true}}
					rs.ScenarioFn = func(*f1testing.T) f1testing.RunFn { return func(*f1testing.T) {} }
					b, err := rs.Build()
					if err != nil {
						panic(err)
					}
					built = append(built, b)
				}
				for _, b := range built {
					if _, err := b.Run.Do(vctx.Background()); err != nil {
						panic(err)
					}
					var o obs
					for _, s := range gather(reg, "form3_loadtest_iteration") {
						if s.labels["stage"] == "iteration" {
							o.iter += s.count
						}
					}
					for _, s := range gather(reg, "form3_loadtest_setup") {
						o.setup += s.count
					}
					seen = append(seen, o)
				}
			}, 60*time.Second, 0)
			if out.Status != vrt.StOK || len(seen) != 2 {
				r.Fail("C16/run-broken", "built-first", out.Status.String()+": "+out.Crash+out.Detail, input)
				continue
			}
			for i, o := range seen {
				if o.iter != its[i] || o.setup != 1 {
					r.Fail("C16/iteration-counts", "earlier-run-mixed-in/built-first", fmt.Sprintf("after run %d: %d iteration samples and %d setup samples exported, the run made %d iterations and one setup", i+1, o.iter, o.setup, its[i]), input)
				}
			}
			r.Distinct(input)
		}
	}}
}

// gateway is an in-process stand-in for a Prometheus push gateway with the documented semantics of
// its API: PUT replaces everything stored under the grouping key, POST replaces only the metric
// families of the same names and keeps the others, DELETE removes the group. It runs on real
// goroutines of net/http outside the controlled scheduler; a push is a synchronous call of the
// pushing thread, so from the run's point of view it is one external step.
type gateway struct {
	mu     sync.Mutex
	groups map[string]map[string]*dto.MetricFamily // grouping key (URL path) -> family name -> family
	pushes int
	bad    []string
}

func (g *gateway) ServeHTTP(w http.ResponseWriter, q *http.Request) {
	g.mu.Lock()
	defer g.mu.Unlock()
	// a group is identified by the job and the set of grouping labels; their order in the path is the pusher's business
	key := q.URL.Path
	if seg := strings.Split(strings.TrimPrefix(key, "/metrics/job/"), "/"); strings.HasPrefix(key, "/metrics/job/") && len(seg)%2 == 1 {
		var pairs []string
		for i := 1; i+1 < len(seg); i += 2 {
			pairs = append(pairs, seg[i]+"/"+seg[i+1])
		}
		sort.Strings(pairs)
		key = "/metrics/job/" + seg[0]
		for _, p := range pairs {
			key += "/" + p
		}
	}
	switch q.Method {
	case http.MethodPut, http.MethodPost:
		fams := map[string]*dto.MetricFamily{}
		dec := expfmt.NewDecoder(q.Body, expfmt.ResponseFormat(q.Header))
		for {
			mf := &dto.MetricFamily{}
			if err := dec.Decode(mf); err != nil {
				if err != io.EOF {
					g.bad = append(g.bad, "undecodable push: "+err.Error())
				}
				break
			}
			fams[mf.GetName()] = mf
		}
		g.pushes++
		if q.Method == http.MethodPut || g.groups[key] == nil {
			g.groups[key] = fams
		} else {
			for n, mf := range fams {
				g.groups[key][n] = mf
			}
		}
		w.WriteHeader(http.StatusOK)
	case http.MethodDelete:
		delete(g.groups, key)
		w.WriteHeader(http.StatusAccepted)
	default:
		g.bad = append(g.bad, "method "+q.Method)
		w.WriteHeader(http.StatusMethodNotAllowed)
	}
}

// gatewaySuite: consecutive runs of one scenario that push to a gateway. What the gateway holds for
// the scenario's group after each run is that run alone: the iteration samples per result label equal
// the final result, there is one setup sample, and a run without iterations leaves none of an earlier
// run's iteration samples behind ("metrics of earlier runs are not mixed in", at the place where the
// exported metrics are actually read). The grouping key carries the job f1-<scenario> and the
// configured namespace / id.
func gatewaySuite() hlib.Suite {
	return hlib.Suite{Name: "push-gateway/consecutive-runs-of-one-scenario", Run: func(r *hlib.Rec) {
		seqs := [][]mix{{mixes[0], mixes[4]}, {mixes[1], mixes[6]}, {mixes[3], mixes[5]}, {mixes[0]}, {mixes[4], mixes[0], mixes[4]}, {mixes[2], mixes[4], mixes[5]}}
		for si, sq := range seqs {
			for _, grp := range []envsettings.Prometheus{{}, {Namespace: "ns1"}, {LabelID: "run-7"}, {Namespace: "ns1", LabelID: "run-7"}} {
				if !r.Mine() {
					continue
				}
				r.Eval()
				gw := &gateway{groups: map[string]map[string]*dto.MetricFamily{}}
				ln, lerr := net.Listen("tcp", "127.0.0.1:0")
				if lerr != nil {
					// no loopback interface in this environment: the suite cannot run, which is not a statement about f1
					r.Note = "skipped: cannot listen on the loopback interface (" + lerr.Error() + ")"
					return
				}
				srv := &httptest.Server{Listener: ln, Config: &http.Server{Handler: gw}}
				srv.Start()
				grp.PushGateway = srv.URL
				var rn []string
				for _, x := range sq {
					rn = append(rn, x.name)
				}
				input := fmt.Sprintf("push gateway configured (namespace=%q id=%q), runs=%v of scenario s on one metrics instance", grp.Namespace, grp.LabelID, rn)
				r.SampleCase(input)
				reg := prometheus.NewRegistry()
				m := metrics.NewInstance(reg, true, map[string]string{"zone": "z1"})
				wantKey := "/metrics/job/f1-s"
				if grp.LabelID != "" {
					wantKey += "/id/" + grp.LabelID
				}
				if grp.Namespace != "" {
					wantKey += "/namespace/" + grp.Namespace
				}
				for ri, mx := range sq {
					mx := mx
					rs := &hlib.RunSpec{Mode: "constant", Quiet: true, Metrics: m, Scenario: "s", CompletionTimeout: time.Second, Prometheus: grp,
						Flags: map[string]string{"rate": "1/100ms", "distribution": "none"},
						Opts:  options.RunOptions{MaxDuration: 10 * time.Second, Concurrency: 1, MaxIterations: mx.iters, IgnoreDropped: true}}
					if mx.drops {
						rs.Flags["rate"] = "2/100ms"
					}
					rs.ScenarioFn = func(t *f1testing.T) f1testing.RunFn {
						if mx.setup == "fail" {
							t.FailNow()
						}
						if mx.setup == "panic" {
							panic("setup panics")
						}
						return func(t *f1testing.T) {
							id, _ := strconv.Atoi(t.Iteration)
							if mx.drops {
								vtime.Sleep(150 * time.Millisecond)
							}
							if mx.fails[id] {
								t.Fail()
							}
						}
					}
					res := hlib.RunOnce(rs, -1, 0, 60*time.Second)
					if res.BuildErr != nil {
						panic(res.BuildErr)
					}
					at := fmt.Sprintf("after run %d (%s)", ri+1, mx.name)
					if res.Out.Status != vrt.StOK {
						r.Fail("C16/run-broken", "gateway/"+mx.name, res.Out.Status.String()+": "+res.Out.Detail+res.Out.Crash, input)
						break
					}
					gw.mu.Lock()
					var keys []string
					for k := range gw.groups {
						keys = append(keys, k)
					}
					sort.Strings(keys)
					got := map[string]uint64{}
					var setupN uint64
					for _, mf := range gw.groups[wantKey] {
						for _, x := range mf.GetMetric() {
							lab := map[string]string{}
							for _, l := range x.GetLabel() {
								lab[l.GetName()] = l.GetValue()
							}
							switch {
							case mf.GetName() == "form3_loadtest_iteration" && lab["stage"] == "iteration":
								got[lab["result"]] += x.GetSummary().GetSampleCount()
							case mf.GetName() == "form3_loadtest_setup":
								setupN += x.GetSummary().GetSampleCount()
							}
						}
					}
					pushes, bad := gw.pushes, strings.Join(gw.bad, "; ")
					gw.mu.Unlock()
					if bad != "" {
						r.Fail("C16/gateway-protocol", "bad-request", at+": "+bad, input)
					}
					if pushes == 0 {
						r.Fail("C16/gateway-push", "nothing-pushed", at+": a push gateway is configured and no push reached it", input)
						break
					}
					if len(keys) != 1 || keys[0] != wantKey {
						r.Fail("C16/gateway-group", "grouping-key", fmt.Sprintf("%s: the gateway holds groups %v, want exactly %s", at, keys, wantKey), input)
						break
					}
					if got["success"] != res.Success || got["fail"] != res.Fail || got["dropped"] != res.Dropped {
						kind := "differs-from-result"
						if ri > 0 && (got["success"] > res.Success || got["fail"] > res.Fail || got["dropped"] > res.Dropped) {
							kind = "earlier-run-mixed-in"
						}
						r.Fail("C16/gateway-iteration-counts", kind, fmt.Sprintf("%s: the gateway's group holds success=%d fail=%d dropped=%d, the result reports %d/%d/%d", at, got["success"], got["fail"], got["dropped"], res.Success, res.Fail, res.Dropped), input)
					}
					if setupN != 1 {
						r.Fail("C16/gateway-setup-count", fmt.Sprint(setupN), fmt.Sprintf("%s: the gateway's group holds %d setup samples, want exactly 1", at, setupN), input)
					}
				}
				srv.Close()
				r.Distinct(fmt.Sprintf("seq %d ns=%v id=%v", si, grp.Namespace != "", grp.LabelID != ""))
			}
		}
	}}
}

func suites(tier string) []hlib.Suite {
	if tier == "quick" {
		return []hlib.Suite{suite(8, 3), builtFirstSuite(), gatewaySuite(), publicAPISuite()}
	}
	return []hlib.Suite{suite(64, 3), builtFirstSuite(), gatewaySuite(), publicAPISuite()}
}

// ---- the outermost entry point: f1.New().WithStaticMetrics(labels).Add(...).ExecuteWithArgs ----
// The process-wide metrics instance can be initialised once per process, so every case runs in a child
// process of this binary (C16_CHILD carries the case); the child prints what its default registry
// holds afterwards, and the parent plays the push gateway the child pushes to.

type childCase struct {
	Labels  map[string]string `json:"labels"`
	Gateway string            `json:"gateway"`
	Mode    string            `json:"mode"` // constant | users | file
}

type childSeries struct {
	Family string            `json:"family"`
	Labels map[string]string `json:"labels"`
	Count  uint64            `json:"count"`
}

type childOut struct {
	Status string        `json:"status"`
	Err    string        `json:"err"`
	Series []childSeries `json:"series"`
}

func child() {
	var c childCase
	if err := json.Unmarshal([]byte(os.Getenv("C16_CHILD")), &c); err != nil {
		fmt.Fprintln(os.Stderr, "bad C16_CHILD:", err)
		os.Exit(2)
	}
	if c.Gateway != "" {
		os.Setenv("PROMETHEUS_PUSH_GATEWAY", c.Gateway)
	} else {
		os.Unsetenv("PROMETHEUS_PUSH_GATEWAY")
	}
	os.Unsetenv("PROMETHEUS_NAMESPACE")
	os.Unsetenv("PROMETHEUS_LABEL_ID")
	args := []string{"run", "constant", "s", "--rate", "1/100ms", "--distribution", "none", "--max-duration", "5s", "--concurrency", "1", "--max-iterations", "3"}
	switch c.Mode {
	case "users":
		args = []string{"run", "users", "s", "--max-duration", "5s", "--concurrency", "1", "--max-iterations", "3"}
	case "staged":
		args = []string{"run", "staged", "s", "--stages", "0s:10,1s:10", "--iterationFrequency", "100ms", "--distribution", "none", "--max-duration", "5s", "--concurrency", "1", "--max-iterations", "3"}
	}
	var o childOut
	var gotErr error
	out := vrt.RunDefault(func() {
		fw := f1.New().WithLogger(hlib.DiscardLogger()).WithStaticMetrics(c.Labels)
		fw.Add("s", func(t *f1testing.T) f1testing.RunFn {
			return func(t *f1testing.T) {
				t.Time("step", func() {})
				if t.Iteration == "2" {
					t.Fail()
				}
			}
		})
		gotErr = fw.ExecuteWithArgs(args)
	}, 60*time.Second, 0)
	o.Status = out.Status.String()
	if out.Status != vrt.StOK {
		o.Err = out.Crash + out.Detail
	} else if gotErr != nil {
		o.Err = gotErr.Error() // one iteration fails: an error is the expected verdict
	}
	mfs, err := prometheus.DefaultGatherer.Gather()
	if err != nil {
		o.Err += " gather: " + err.Error()
	}
	for _, mf := range mfs {
		if !strings.HasPrefix(mf.GetName(), "form3_loadtest_") {
			continue
		}
		for _, m := range mf.GetMetric() {
			cs := childSeries{Family: mf.GetName(), Labels: map[string]string{}, Count: m.GetSummary().GetSampleCount()}
			for _, l := range m.GetLabel() {
				cs.Labels[l.GetName()] = l.GetValue()
			}
			o.Series = append(o.Series, cs)
		}
	}
	json.NewEncoder(os.Stdout).Encode(o)
}

func publicAPISuite() hlib.Suite {
	return hlib.Suite{Name: "f1.New().WithStaticMetrics(labels).ExecuteWithArgs/child-process-per-case", Run: func(r *hlib.Rec) {
		labelSets := []map[string]string{nil, {}, {"a": "v_a"}, {"zone": "v_zone", "Zone": "v_Zone"}, {"id": "v_id", "id1": "v_id1", "a_b": "v_a_b"}, {"a": "", "b": "v_b"}, {"b": "v_b", "a": "v_a", "A": "v_A", "zone": "v_zone"}}
		for li, labels := range labelSets {
			for _, mode := range []string{"constant", "users", "staged"} {
				for _, withGW := range []bool{true, false} {
					if !r.Mine() {
						continue
					}
					r.Eval()
					var lk []string
					for k := range labels {
						lk = append(lk, k)
					}
					sort.Strings(lk)
					input := fmt.Sprintf("f1.New().WithStaticMetrics(%v).Add(s).ExecuteWithArgs(run %s s ... --max-iterations 3), iteration 2 fails, push gateway configured=%v", lk, mode, withGW)
					r.SampleCase(input)
					cc := childCase{Labels: labels, Mode: mode}
					gw := &gateway{groups: map[string]map[string]*dto.MetricFamily{}}
					if withGW {
						ln, lerr := net.Listen("tcp", "127.0.0.1:0")
						if lerr != nil {
							r.Note = "skipped: cannot listen on the loopback interface (" + lerr.Error() + ")"
							return
						}
						srv := &httptest.Server{Listener: ln, Config: &http.Server{Handler: gw}}
						srv.Start()
						defer srv.Close()
						cc.Gateway = srv.URL
					}
					js, _ := json.Marshal(cc)
					cmd := exec.Command(os.Args[0])
					cmd.Env = append(os.Environ(), "C16_CHILD="+string(js), "VERIF_NO_METRICS_INIT=1")
					var stderr bytes.Buffer
					cmd.Stderr = &stderr
					raw, err := cmd.Output()
					var o childOut
					if err != nil || json.Unmarshal(raw, &o) != nil {
						vrt.Infra(fmt.Sprintf("C16 child process failed: %v\n%s\n%s", err, stderr.String(), raw))
					}
					if o.Status != vrt.StOK.String() {
						r.Fail("C16/run-broken", "public-api/"+mode, o.Status+": "+o.Err, input)
						continue
					}
					check := func(where string, ss []childSeries, wantIter bool) {
						got := map[string]uint64{}
						var setupN uint64
						for _, s := range ss {
							switch {
							case s.Family == "form3_loadtest_iteration" && s.Labels["stage"] == "iteration":
								got[s.Labels["result"]] += s.Count
								checkLabels(r, s.Labels, labels, "s", "iteration", input, where)
							case s.Family == "form3_loadtest_iteration":
								checkLabels(r, s.Labels, labels, "s", "stage", input, where)
							case s.Family == "form3_loadtest_setup":
								setupN += s.Count
								checkLabels(r, s.Labels, labels, "s", "setup", input, where)
							}
							// exactly the configured keys besides f1's own
							for k := range s.Labels {
								if _, ok := labels[k]; !ok && k != "test" && k != "result" && k != "stage" {
									r.Fail("C16/labels", "unconfigured-label", fmt.Sprintf("%s: series carries %s=%q, which was not configured (series %v)", where, k, s.Labels[k], s.Labels), input)
								}
							}
						}
						if wantIter && (got["success"] != 2 || got["fail"] != 1 || got["dropped"] != 0) {
							r.Fail("C16/iteration-counts", "public-api/differs-from-run", fmt.Sprintf("%s: iteration samples success=%d fail=%d dropped=%d, the run made 2 successful and 1 failed iteration", where, got["success"], got["fail"], got["dropped"]), input)
						}
						if !wantIter && got["success"]+got["fail"]+got["dropped"] != 0 {
							r.Fail("C16/iteration-counts", "exported-although-disabled", fmt.Sprintf("%s: %v", where, got), input)
						}
						if setupN != 1 {
							r.Fail("C16/setup-count", "public-api/"+fmt.Sprint(setupN), fmt.Sprintf("%s: %d setup samples, want exactly 1", where, setupN), input)
						}
					}
					check("in the process's default registry after ExecuteWithArgs", o.Series, withGW)
					if withGW {
						gw.mu.Lock()
						var ss []childSeries
						var keys []string
						for k, g := range gw.groups {
							keys = append(keys, k)
							for _, mf := range g {
								if !strings.HasPrefix(mf.GetName(), "form3_loadtest_") {
									continue // the default registry also carries the Go runtime collectors
								}
								for _, m := range mf.GetMetric() {
									cs := childSeries{Family: mf.GetName(), Labels: map[string]string{}, Count: m.GetSummary().GetSampleCount()}
									for _, l := range m.GetLabel() {
										cs.Labels[l.GetName()] = l.GetValue()
									}
									ss = append(ss, cs)
								}
							}
						}
						bad := strings.Join(gw.bad, "; ")
						gw.mu.Unlock()
						sort.Strings(keys)
						if bad != "" {
							r.Fail("C16/gateway-protocol", "bad-request", bad, input)
						}
						if len(keys) != 1 || keys[0] != "/metrics/job/f1-s" {
							r.Fail("C16/gateway-group", "grouping-key", fmt.Sprintf("the gateway holds groups %v, want exactly /metrics/job/f1-s", keys), input)
						} else {
							check("on the push gateway after ExecuteWithArgs", ss, true)
						}
					}
					r.Distinct(fmt.Sprintf("labels %d %s gw=%v", li, mode, withGW))
				}
			}
		}
	}}
}

func main() {
	if os.Getenv("C16_CHILD") != "" {
		child()
		return
	}
	hlib.EnumMain("C16", suites)
}
