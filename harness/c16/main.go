// Harness for C16 (E2 over configurations, each run through the real Run.Do on
// the default virtual-time schedule): exported metrics mirror the run and
// carry the right labels.
package main

import (
	"fmt"
	"sort"
	"strconv"
	"time"

	"github.com/prometheus/client_golang/prometheus"
	dto "github.com/prometheus/client_model/go"

	"github.com/form3tech-oss/f1/v2/internal/metrics"
	"github.com/form3tech-oss/f1/v2/internal/options"
	"github.com/form3tech-oss/f1/v2/internal/verifharness/hlib"
	"github.com/form3tech-oss/f1/v2/internal/verifshim/vctx"
	"github.com/form3tech-oss/f1/v2/internal/verifshim/vrt"
	"github.com/form3tech-oss/f1/v2/internal/verifshim/vtime"
	f1testing "github.com/form3tech-oss/f1/v2/pkg/f1/testing"
)

var keyAlpha = []string{"a", "b", "id", "zone", "Zone", "A", "id1", "a_b"} // incl. keys that differ only in case, and a key that is another's prefix followed by a digit / an underscore

// mix: how one run behaves
type mix struct {
	name  string
	fails map[int]bool // iteration ids that fail
	iters uint64       // max-iterations
	drops bool         // two requests per tick for one slow worker: the second is dropped
	setup string       // ok|fail
}

var mixes = []mix{
	{name: "3pass", iters: 3},
	{name: "2pass1fail", iters: 3, fails: map[int]bool{2: true}},
	{name: "allfail", iters: 2, fails: map[int]bool{1: true, 2: true}},
	{name: "drops", iters: 3, drops: true, fails: map[int]bool{1: true}},
	{name: "setupfail", iters: 3, setup: "fail"},
	{name: "1pass", iters: 1},
	{name: "setuppanic", iters: 2, setup: "panic"},
}

type series struct {
	labels map[string]string
	count  uint64
	sum    float64
}

func gather(reg *prometheus.Registry, name string) []series {
	mfs, err := reg.Gather()
	if err != nil {
		panic(err)
	}
	var out []series
	for _, mf := range mfs {
		if mf.GetName() != name {
			continue
		}
		for _, m := range mf.GetMetric() {
			s := series{labels: map[string]string{}}
			for _, l := range m.GetLabel() {
				s.labels[l.GetName()] = l.GetValue()
			}
			var sm *dto.Summary = m.GetSummary()
			s.count, s.sum = sm.GetSampleCount(), sm.GetSampleSum()
			out = append(out, s)
		}
	}
	return out
}

// alternate: odd-numbered runs of a sequence use another scenario name
var alternate bool

// useGlobal: run against the process-wide metrics instance and the default registry
var useGlobal bool

func checkRuns(r *hlib.Rec, labels map[string]string, scenario string, runs []mix, rep int, enabled bool) {
	alternate = rep%2 == 1
	r.Eval()
	reg := prometheus.NewRegistry()
	m := metrics.NewInstance(reg, enabled, labels)
	if useGlobal {
		// the process-wide instance (what f1.New sets up, and what T.Time records into)
		reg = prometheus.DefaultRegisterer.(*prometheus.Registry)
		m = metrics.Instance()
	}
	var lk []string
	for k := range labels {
		lk = append(lk, k)
	}
	sort.Strings(lk)
	var rn []string
	for _, x := range runs {
		rn = append(rn, x.name)
	}
	input := fmt.Sprintf("labels=%v scenario=%s runs=%v iteration-metrics-enabled=%v", lk, scenario, rn, enabled)
	if useGlobal {
		input += " process-wide-metrics-instance"
	}
	r.SampleCase(input)
	base := scenario
	for ri, mx := range runs {
		passes, failsN := uint64(0), uint64(0)
		// consecutive runs on one instance are not always runs of the same scenario
		scenario := base
		if alternate && ri%2 == 1 {
			scenario = base + "-other"
		}
		rs := &hlib.RunSpec{Mode: "constant", Quiet: true, Metrics: m, Scenario: scenario, CompletionTimeout: time.Second,
			Flags: map[string]string{"rate": "1/100ms", "distribution": "none"},
			Opts:  options.RunOptions{MaxDuration: 10 * time.Second, Concurrency: 1, MaxIterations: mx.iters, IgnoreDropped: true}}
		if mx.drops {
			rs.Flags["rate"] = "2/100ms"
		}
		mx := mx
		rs.ScenarioFn = func(t *f1testing.T) f1testing.RunFn {
			if mx.setup == "fail" {
				t.FailNow()
			}
			if mx.setup == "panic" {
				panic("setup panics")
			}
			return func(t *f1testing.T) {
				id, _ := strconv.Atoi(t.Iteration)
				if mx.drops {
					vtime.Sleep(150 * time.Millisecond)
				}
				// stages timed by the body (also under an empty name) are not iterations
				t.Time("", func() {})
				t.Time("step", func() {})
				if mx.fails[id] {
					failsN++
					t.Fail()
				} else {
					passes++
				}
				if alternate && uint64(id) == mx.iters {
					// the handle's exported name field is the body's to scribble on: the run's series are named after the scenario
					t.Scenario = "renamed-by-the-last-body"
				}
			}
		}
		res := hlib.RunOnce(rs, -1, 0, 60*time.Second)
		if res.BuildErr != nil {
			panic(res.BuildErr)
		}
		if res.Out.Status != vrt.StOK {
			r.Fail("C16/run-broken", mx.name, res.Out.Status.String()+": "+res.Out.Detail+res.Out.Crash, input)
			return
		}
		at := fmt.Sprintf("after run %d (%s)", ri+1, mx.name)
		// iteration family
		got := map[string]uint64{}
		for _, s := range gather(reg, "form3_loadtest_iteration") {
			if s.labels["stage"] != "iteration" {
				continue
			}
			got[s.labels["result"]] += s.count
			checkLabels(r, s.labels, labels, scenario, "iteration", input, at)
		}
		if !enabled {
			// iteration metrics switched off (what the CLI does without a push gateway): nothing may be exported for iterations
			if got["success"]+got["fail"]+got["dropped"] != 0 {
				r.Fail("C16/iteration-counts", "exported-although-disabled", fmt.Sprintf("%s: %v", at, got), input)
			}
		} else if got["success"] != res.Success || got["fail"] != res.Fail || got["dropped"] != res.Dropped {
			kind := "differs-from-result"
			if ri > 0 && (got["success"] > res.Success || got["fail"] > res.Fail || got["dropped"] > res.Dropped) {
				kind = "earlier-run-mixed-in"
			}
			r.Fail("C16/iteration-counts", kind, fmt.Sprintf("%s: metric has success=%d fail=%d dropped=%d, the result reports %d/%d/%d", at, got["success"], got["fail"], got["dropped"], res.Success, res.Fail, res.Dropped), input)
		}
		if res.Success != passes || res.Fail != failsN {
			r.Fail("C16/result-vs-truth", "mismatch", fmt.Sprintf("%s: result %d/%d, bodies passed %d failed %d", at, res.Success, res.Fail, passes, failsN), input)
		}
		if mx.drops && res.Dropped == 0 {
			r.Fail("C16/harness", "no-drops", "the drops mix produced no drop: the scenario does not exercise the dropped label", input)
		}
		// setup family
		var total uint64
		for _, s := range gather(reg, "form3_loadtest_setup") {
			total += s.count
			want := "success"
			if mx.setup == "fail" || mx.setup == "panic" {
				want = "fail"
			}
			if s.count > 0 && s.labels["result"] != want {
				r.Fail("C16/setup-label", "wrong-result", fmt.Sprintf("%s: setup sample labelled %q, setup outcome was %q", at, s.labels["result"], want), input)
			}
			checkLabels(r, s.labels, labels, scenario, "setup", input, at)
		}
		if total != 1 {
			r.Fail("C16/setup-count", fmt.Sprint(total), fmt.Sprintf("%s: setup metric holds %d samples, want exactly 1", at, total), input)
		}
	}
	if rep == 0 {
		r.Distinct(fmt.Sprintf("%d labels, %s, %v", len(labels), scenario, rn))
	}
}

func checkLabels(r *hlib.Rec, got, want map[string]string, scenario, family, input, at string) {
	if got["test"] != scenario {
		r.Fail("C16/labels", family+"-test-label", fmt.Sprintf("%s: series has test=%q, scenario is %q", at, got["test"], scenario), input)
	}
	for k, v := range want {
		if gv, ok := got[k]; !ok || gv != v {
			kind := "missing"
			if ok {
				kind = "paired-with-another-value"
			}
			r.Fail("C16/labels", family+"-"+kind, fmt.Sprintf("%s: static label %s=%q, configured %q (series %v)", at, k, got[k], v, got), input)
		}
	}
}

func suite(reps int, maxRuns int) hlib.Suite {
	return hlib.Suite{Name: fmt.Sprintf("labels<=3-of-4/mixes/runs<=%d/repetitions=%d", maxRuns, reps), Run: func(r *hlib.Rec) {
		for mask := 0; mask < 1<<len(keyAlpha); mask++ {
			labels := map[string]string{}
			for i, k := range keyAlpha {
				if mask&(1<<i) != 0 {
					labels[k] = "v_" + k
					if i == 1 && mask&1 != 0 {
						labels[k] = "" // a configured label whose value is empty is still a label of every series
					}
				}
			}
			if len(labels) > 3 {
				continue
			}
			for _, scen := range []string{"s", "s-2"} {
				var seqs [][]mix
				for _, a := range mixes {
					seqs = append(seqs, []mix{a})
				}
				if maxRuns >= 2 {
					seqs = append(seqs, []mix{mixes[1], mixes[0]}, []mix{mixes[3], mixes[5]}, []mix{mixes[4], mixes[0]}, []mix{mixes[2], mixes[4]}, []mix{mixes[6], mixes[0]})
				}
				if maxRuns >= 3 {
					seqs = append(seqs, []mix{mixes[3], mixes[1], mixes[5]}, []mix{mixes[0], mixes[4], mixes[2]})
				}
				for _, sq := range seqs {
					if !r.Mine() {
						continue
					}
					// Go's map iteration order cannot be enumerated: each case is built and
					// evaluated several times so an order-dependent pairing shows up
					// (repetition, not enumeration).
					for rep := 0; rep < reps; rep++ {
						if r.Expired() {
							return
						}
						l2 := map[string]string{}
						for k, v := range labels {
							l2[k] = v
						}
						checkRuns(r, l2, scen, sq, rep, true)
						if rep == 0 && len(labels) <= 1 {
							checkRuns(r, l2, scen, sq, rep, false)
						}
						if rep <= 1 && len(labels) == 0 {
							useGlobal = true
							checkRuns(r, l2, scen, sq, rep, true)
							useGlobal = false
						}
					}
				}
			}
		}
		r.Note = "map iteration order is chosen by the runtime and cannot be enumerated; every label map is rebuilt and evaluated several times (repetition, not enumeration)"
		r.Sample(map[string]any{"label_keys": keyAlpha, "scenarios": []string{"s", "s-2"}, "mixes": len(mixes), "consecutive_runs": maxRuns})
	}}
}

// builtFirstSuite: two runs on one metrics instance that are both constructed before
// either is executed. After each Do the export mirrors that run alone.
func builtFirstSuite() hlib.Suite {
	return hlib.Suite{Name: "two-runs-constructed-before-either-executes", Run: func(r *hlib.Rec) {
		for _, its := range [][2]uint64{{3, 2}, {1, 4}} {
			r.Eval()
			input := fmt.Sprintf("run A (%d iterations) and run B (%d iterations) are built with NewRun, then A.Do, then B.Do, one metrics instance", its[0], its[1])
			r.SampleCase(input)
			reg := prometheus.NewRegistry()
			m := metrics.NewInstance(reg, true, nil)
			type obs struct {
				iter  uint64
				setup uint64
			}
			var seen []obs
			out := vrt.RunDefault(func() {
				var built []*hlib.Built
				for _, n := range its {
					rs := &hlib.RunSpec{Mode: "constant", Quiet: true, Metrics: m, CompletionTimeout: time.Second,
						Flags: map[string]string{"rate": "1/100ms", "distribution": "none"},
						Opts:  options.RunOptions{MaxDuration: 10 * time.Second, Concurrency: 1, MaxIterations: n, IgnoreDropped: true}}
					rs.ScenarioFn = func(*f1testing.T) f1testing.RunFn { return func(*f1testing.T) {} }
					b, err := rs.Build()
					if err != nil {
						panic(err)
					}
					built = append(built, b)
				}
				for _, b := range built {
					if _, err := b.Run.Do(vctx.Background()); err != nil {
						panic(err)
					}
					var o obs
					for _, s := range gather(reg, "form3_loadtest_iteration") {
						if s.labels["stage"] == "iteration" {
							o.iter += s.count
						}
					}
					for _, s := range gather(reg, "form3_loadtest_setup") {
						o.setup += s.count
					}
					seen = append(seen, o)
				}
			}, 60*time.Second, 0)
			if out.Status != vrt.StOK || len(seen) != 2 {
				r.Fail("C16/run-broken", "built-first", out.Status.String()+": "+out.Crash+out.Detail, input)
				continue
			}
			for i, o := range seen {
				if o.iter != its[i] || o.setup != 1 {
					r.Fail("C16/iteration-counts", "earlier-run-mixed-in/built-first", fmt.Sprintf("after run %d: %d iteration samples and %d setup samples exported, the run made %d iterations and one setup", i+1, o.iter, o.setup, its[i]), input)
				}
			}
			r.Distinct(input)
		}
	}}
}

func suites(tier string) []hlib.Suite {
	if tier == "quick" {
		return []hlib.Suite{suite(8, 3), builtFirstSuite()}
	}
	return []hlib.Suite{suite(64, 3), builtFirstSuite()}
}

func main() { hlib.EnumMain("C16", suites) }
