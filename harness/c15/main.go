// Harness for C15, parse part (E2): a config file yields, in file order,
// exactly the stages whose scheduled end is still in the future, every omitted
// field is taken from the default section, the limits map one-to-one onto the
// run options and the total duration is the sum of all stage durations.
package main

import (
	"fmt"
	"strings"
	"time"

	"github.com/form3tech-oss/f1/v2/internal/trigger/api"
	"github.com/form3tech-oss/f1/v2/internal/trigger/constant"
	"github.com/form3tech-oss/f1/v2/internal/trigger/file"
	"github.com/form3tech-oss/f1/v2/internal/trigger/gaussian"
	"github.com/form3tech-oss/f1/v2/internal/trigger/ramp"
	"github.com/form3tech-oss/f1/v2/internal/trigger/staged"
	"github.com/form3tech-oss/f1/v2/internal/verifharness/hlib"
	"github.com/form3tech-oss/f1/v2/internal/verifshim/vrand"
)

var T0 = time.Date(2024, 5, 6, 7, 8, 9, 0, time.UTC)

var modeBody = map[string]string{
	"constant": "  rate: 3/100ms\n  jitter: 0\n  distribution: none\n",
	"users":    "  concurrency: 2\n",
	"staged":   "  stages: 0s:1,1s:5\n  iteration-frequency: 100ms\n  jitter: 0\n  distribution: none\n",
	"ramp":     "  start-rate: 1/100ms\n  end-rate: 9/100ms\n  jitter: 0\n  distribution: none\n",
	"gaussian": "  volume: 1000\n  repeat: 1m\n  iteration-frequency: 1s\n  peak: 30s\n  weights: \"\"\n  standard-deviation: 10s\n  jitter: 0\n  distribution: none\n",
}
var modes = []string{"constant", "users", "staged", "ramp", "gaussian"}

type st struct {
	mode string
	d    time.Duration
}

func limitsBlock() string { return limitsWith(true, true) }

// limitsWith: the two failure tolerances are optional; each is stated or left out
func limitsWith(failures, rate bool) string {
	s := "limits:\n  max-duration: 77s\n  concurrency: 5\n  max-iterations: 123\n"
	if failures {
		s += "  max-failures: 7\n"
	}
	if rate {
		s += "  max-failures-rate: 11\n"
	}
	return s + "  ignore-dropped: true\n"
}

// limitsSuite: the limits map one-to-one onto the run options, through the parser and
// through the real builder's Trigger.Options, for every stated/omitted pattern of the
// optional ones and both values of ignore-dropped.
func limitsSuite() hlib.Suite {
	return hlib.Suite{Name: "limits/stated-or-omitted/parser-and-builder", Run: func(r *hlib.Rec) {
		for _, fl := range []bool{false, true} {
			for _, rt := range []bool{false, true} {
				for _, ign := range []bool{false, true} {
					r.Eval()
					doc := "scenario: sc\n" + strings.Replace(limitsWith(fl, rt), "ignore-dropped: true", fmt.Sprintf("ignore-dropped: %v", ign), 1) +
						"stages:\n- duration: 1s\n  mode: constant\n" + modeBody["constant"]
					input := fmt.Sprintf("max-failures stated=%v max-failures-rate stated=%v ignore-dropped=%v", fl, rt, ign)
					r.SampleCase(input)
					wantF, wantR := uint64(0), 0
					if fl {
						wantF = 7
					}
					if rt {
						wantR = 11
					}
					var plan *file.RunnableStages
					var err error
					if p, pv := hlib.Catch(func() { plan, err = file.ParseConfigFile([]byte(doc), T0) }); p {
						err = fmt.Errorf("panic: %v", pv)
					}
					if err != nil {
						r.Fail("C15/limits", "rejected", err.Error(), input+"\n"+doc)
						continue
					}
					if plan.VerifMaxFailures() != wantF || plan.VerifMaxFailuresRate() != wantR || plan.IgnoreDropped != ign || plan.MaxIterations != 123 || plan.Concurrency != 5 || plan.MaxDuration != 77*time.Second {
						r.Fail("C15/limits", "mismapped", fmt.Sprintf("parser: max-failures=%d max-failures-rate=%d ignore-dropped=%v, the document says %d, %d, %v", plan.VerifMaxFailures(), plan.VerifMaxFailuresRate(), plan.IgnoreDropped, wantF, wantR, ign), input)
					}
					tr, opts, err := (&hlib.RunSpec{Mode: "file", FileYAML: doc}).BuildTrigger()
					if err != nil || tr == nil {
						r.Fail("C15/limits", "builder-rejected", fmt.Sprint(err), input)
						continue
					}
					if opts.MaxFailures != wantF || opts.MaxFailuresRate != wantR || opts.IgnoreDropped != ign || opts.MaxIterations != 123 || opts.Concurrency != 5 || opts.MaxDuration != 77*time.Second || opts.Scenario != "sc" {
						r.Fail("C15/limits", "builder-mismapped", fmt.Sprintf("Trigger.Options: %+v; the document says max-failures %d, max-failures-rate %d, ignore-dropped %v", tr.Options, wantF, wantR, ign), input)
					}
					r.Distinct(input)
				}
			}
		}
	}}
}

// planSuite: which stages are kept, in which order, for every restart instant.
func planSuite(maxLen int) hlib.Suite {
	return hlib.Suite{Name: fmt.Sprintf("plan/stage-lists<=%d/all-restart-instants", maxLen), Weight: 3, Run: func(r *hlib.Rec) {
		var lists [][]st
		var rec func(cur []st)
		rec = func(cur []st) {
			if len(cur) > 0 {
				lists = append(lists, append([]st(nil), cur...))
			}
			if len(cur) == maxLen {
				return
			}
			for _, m := range modes {
				for _, d := range []time.Duration{time.Second, 2 * time.Second, 1500 * time.Millisecond} {
					if d == 1500*time.Millisecond && m != "constant" && m != "users" {
						continue // one duration that is not a whole number of seconds, on two modes
					}
					rec(append(cur, st{m, d}))
				}
			}
		}
		rec(nil)
		for _, l := range lists {
			if !r.Mine() {
				continue
			}
			if r.Expired() {
				return
			}
			var total time.Duration
			var ends []time.Duration
			for _, s := range l {
				total += s.d
				ends = append(ends, total)
			}
			for _, startKind := range []int{0, 1, 2} {
				withStart := startKind > 0
				T0 := T0
				if startKind == 2 {
					T0 = T0.Add(900 * time.Millisecond) // a stage-start that is not on a whole second
				}
				var b strings.Builder
				b.WriteString("scenario: sc\n" + limitsBlock())
				if withStart {
					b.WriteString("schedule:\n  stage-start: " + T0.Format(time.RFC3339Nano) + "\n")
				}
				b.WriteString("stages:\n")
				for i, s := range l {
					fmt.Fprintf(&b, "- duration: %s\n  mode: %s\n%s  parameters:\n    MARK: \"%d\"\n", s.d, s.mode, modeBody[s.mode], i)
				}
				doc := b.String()
				nows := []time.Duration{-time.Second, total + time.Hour}
				for _, e := range ends {
					nows = append(nows, e-1, e, e+1, e-400*time.Millisecond, e+400*time.Millisecond)
				}
				if !withStart {
					nows = []time.Duration{0, total + time.Hour}
				}
				for _, off := range nows {
					r.Eval()
					now := T0.Add(off)
					input := fmt.Sprintf("stages=%v stage-start-given=%v now=stage-start%+d ns", l, withStart, int64(off))
					r.SampleCase(input)
					var plan *file.RunnableStages
					var err error
					if p, pv := hlib.Catch(func() { plan, err = file.ParseConfigFile([]byte(doc), now) }); p || err != nil {
						r.Fail("C15/plan-rejected", "valid-config", fmt.Sprintf("panic=%v err=%v", pv, err), input+"\n"+doc)
						continue
					}
					var want []int
					for i := range l {
						if !withStart || T0.Add(ends[i]).After(now) {
							want = append(want, i)
						}
					}
					var got []string
					for _, s := range plan.VerifStages() {
						got = append(got, s.Params["MARK"])
					}
					var wants []string
					for _, i := range want {
						wants = append(wants, fmt.Sprint(i))
					}
					if strings.Join(got, ",") != strings.Join(wants, ",") {
						r.Fail("C15/unfinished-stages", relation(got, wants), fmt.Sprintf("plan keeps stages [%s], the unfinished ones are [%s]", strings.Join(got, ","), strings.Join(wants, ",")), input)
					} else {
						for k, s := range plan.VerifStages() {
							i := want[k]
							if s.StageDuration != l[i].d {
								r.Fail("C15/stage-duration", "wrong", fmt.Sprintf("stage %d has duration %s, configured %s", i, s.StageDuration, l[i].d), input)
							}
							if (s.UsersConcurrency > 0) != (l[i].mode == "users") {
								r.Fail("C15/stage-mode", "wrong", fmt.Sprintf("stage %d mode %s has users concurrency %d", i, l[i].mode, s.UsersConcurrency), input)
							}
						}
					}
					if plan.VerifTotalDuration() != total {
						r.Fail("C15/total-duration", "not-sum-of-all", fmt.Sprintf("total duration %s, sum of all stage durations %s (kept %d of %d)", plan.VerifTotalDuration(), total, len(got), len(l)), input)
					}
					if plan.Scenario != "sc" || plan.MaxDuration != 77*time.Second || plan.Concurrency != 5 || plan.MaxIterations != 123 || plan.VerifMaxFailures() != 7 || plan.VerifMaxFailuresRate() != 11 || !plan.IgnoreDropped {
						r.Fail("C15/limits", "mismapped", fmt.Sprintf("%+v failures=%d rate=%d", *plan, plan.VerifMaxFailures(), plan.VerifMaxFailuresRate()), input)
					}
					r.Distinct(fmt.Sprintf("len=%d kept=%d start=%v", len(l), len(got), withStart))
				}
			}
		}
		r.Sample(map[string]any{"modes": modes, "durations": "1s,2s", "now": "stage-start-1s, every cumulative end -1ns/=/+1ns, after the end"})
	}}
}

func relation(got, want []string) string {
	switch {
	case len(got) > len(want):
		return "keeps-finished-stage"
	case len(got) < len(want):
		return "drops-unfinished-stage"
	}
	return "wrong-order"
}

type fld struct {
	name   string
	a, b   string // two different valid values
	z      string // the field's zero value, valid when a stage states it explicitly ("" if there is none)
	modeOK string
}

var fields = map[string][]fld{
	"constant": {{name: "rate", a: "100/100ms", b: "40/100ms"}, {name: "distribution", a: "none", b: "regular"}, {name: "jitter", a: "20", b: "50", z: "0"}},
	"ramp":     {{name: "start-rate", a: "100/100ms", b: "10/100ms"}, {name: "end-rate", a: "200/100ms", b: "500/100ms"}, {name: "distribution", a: "none", b: "regular"}, {name: "jitter", a: "20", b: "50", z: "0"}},
	"staged":   {{name: "stages", a: "0s:100,1s:200", b: "0s:10,1s:20"}, {name: "iteration-frequency", a: "100ms", b: "200ms"}, {name: "distribution", a: "none", b: "regular"}, {name: "jitter", a: "20", b: "50", z: "0"}},
	"gaussian": {{name: "volume", a: "100000", b: "5000"}, {name: "repeat", a: "1m", b: "2m"}, {name: "iteration-frequency", a: "1s", b: "2s"}, {name: "peak", a: "30s", b: "10s"},
		{name: "weights", a: `""`, b: `"1,3"`}, {name: "standard-deviation", a: "10s", b: "20s"}, {name: "distribution", a: "none", b: "regular"}, {name: "jitter", a: "20", b: "50", z: "0"}},
	"users": {{name: "concurrency", a: "3", b: "4"}},
}

func unq(s string) string { return strings.Trim(s, `"`) }

// direct builds the stage's rates straight from the effective field values.
func direct(mode string, eff map[string]string) (*api.Rates, int, error) {
	var j float64
	fmt.Sscan(eff["jitter"], &j)
	pd := func(k string) time.Duration { d, _ := time.ParseDuration(eff[k]); return d }
	switch mode {
	case "constant":
		r, err := constant.CalculateConstantRate(j, eff["rate"], eff["distribution"])
		return r, 0, err
	case "ramp":
		r, err := ramp.CalculateRampRate(eff["start-rate"], eff["end-rate"], eff["distribution"], pd("duration"), j) // the stage duration is the ramp duration
		return r, 0, err
	case "staged":
		r, err := staged.CalculateStagedRate(j, pd("iteration-frequency"), eff["stages"], eff["distribution"], nil)
		return r, 0, err
	case "gaussian":
		var v float64
		fmt.Sscan(eff["volume"], &v)
		r, err := gaussian.CalculateGaussianRate(v, j, pd("repeat"), pd("iteration-frequency"), pd("peak"), pd("standard-deviation"), unq(eff["weights"]), eff["distribution"])
		return r, 0, err
	}
	var c int
	fmt.Sscan(eff["concurrency"], &c)
	return nil, c, nil
}

// defaultsSuite: per mode, every field sourced from the stage, from default
// only, or from both with different values; duration, mode and parameters too.
// gauss: "full" enumerates gaussian like the other modes; "own-fields" (the quick
// tier) enumerates the source patterns of the six fields only gaussian has, with
// the fields shared with the other modes stated by the stage.
func defaultsSuite(gauss string) hlib.Suite {
	withGaussian := gauss
	return hlib.Suite{Name: fmt.Sprintf("defaults/every-field-source-pattern/gaussian=%v", withGaussian), Weight: 3, Run: func(r *hlib.Rec) {
		defer func() { vrand.Script = nil }()
		vrand.Script = func() float64 { return 0 } // cos(0)=1: the jittered value shows the jitter percentage
		for _, mode := range modes {
			fs := append([]fld{}, fields[mode]...)
			fs = append(fs, fld{name: "duration", a: "1s", b: "3s"}, fld{name: "parameters", a: "{K: stage}", b: "{K: default}", z: `{K: ""}`}, fld{name: "mode", a: mode, b: mode})
			total := 1
			radix := func(f fld) int {
				if mode == "gaussian" && gauss != "full" {
					switch f.name {
					case "distribution", "jitter", "duration", "parameters", "mode":
						return 1
					}
				}
				if f.z != "" {
					return 4
				}
				return 3
			}
			for _, f := range fs {
				total *= radix(f)
			}
			for code := 0; code < total; code++ {
				if !r.Mine() {
					continue
				}
				if r.Expired() {
					return
				}
				var stage, def []string
				eff := map[string]string{}
				c := code
				var src []string
				for _, f := range fs {
					switch c % radix(f) {
					case 3: // the stage states the zero value explicitly, default has another: stated is not omitted
						stage = append(stage, fmt.Sprintf("  %s: %s", f.name, f.z))
						def = append(def, fmt.Sprintf("  %s: %s", f.name, f.b))
						eff[f.name] = f.z
						src = append(src, "stage-states-zero")
					case 0: // stage only
						stage = append(stage, fmt.Sprintf("  %s: %s", f.name, f.a))
						eff[f.name] = f.a
						src = append(src, "stage")
					case 1: // default only
						def = append(def, fmt.Sprintf("  %s: %s", f.name, f.b))
						eff[f.name] = f.b
						src = append(src, "default")
					case 2: // both, different values: the stage's wins
						stage = append(stage, fmt.Sprintf("  %s: %s", f.name, f.a))
						def = append(def, fmt.Sprintf("  %s: %s", f.name, f.b))
						eff[f.name] = f.a
						src = append(src, "both")
					}
					c /= radix(f)
				}
				doc := "scenario: sc\n" + limitsBlock() + "default:\n" + strings.Join(def, "\n") + "\nstages:\n- " + strings.TrimPrefix(strings.Join(stage, "\n"), "  ") + "\n"
				if len(stage) == 0 {
					doc = "scenario: sc\n" + limitsBlock() + "default:\n" + strings.Join(def, "\n") + "\nstages:\n- {}\n"
				}
				if len(def) == 0 {
					doc = strings.Replace(doc, "default:\n\n", "", 1)
				}
				input := fmt.Sprintf("mode=%s sources=%v", mode, src)
				r.SampleCase(input)
				r.Eval()
				var plan *file.RunnableStages
				var err error
				if p, pv := hlib.Catch(func() { plan, err = file.ParseConfigFile([]byte(doc), T0) }); p || err != nil || len(plan.VerifStages()) != 1 {
					r.Fail("C15/defaults-rejected", mode, fmt.Sprintf("panic=%v err=%v", pv, err), input+"\n"+doc)
					continue
				}
				got := plan.VerifStages()[0]
				wantDur, _ := time.ParseDuration(eff["duration"])
				if got.StageDuration != wantDur {
					r.Fail("C15/defaults", "duration", fmt.Sprintf("duration %s, effective %s", got.StageDuration, wantDur), input)
				}
				wantK := unq(strings.TrimSuffix(strings.TrimPrefix(eff["parameters"], "{K: "), "}"))
				if got.Params["K"] != wantK {
					r.Fail("C15/defaults", "parameters", fmt.Sprintf("parameter K=%q, effective %q", got.Params["K"], wantK), input)
				}
				want, wantUsers, derr := direct(mode, eff)
				if derr != nil {
					panic(fmt.Sprint("harness: direct build failed: ", derr))
				}
				if mode == "users" {
					if got.UsersConcurrency != wantUsers {
						r.Fail("C15/defaults", "users-concurrency", fmt.Sprintf("users concurrency %d, effective %d", got.UsersConcurrency, wantUsers), input)
					}
				} else {
					if got.IterationDuration != want.IterationDuration {
						r.Fail("C15/defaults", fieldOf(mode, "interval"), fmt.Sprintf("tick interval %s, built from the effective fields %s", got.IterationDuration, want.IterationDuration), input)
					}
					base := time.Date(2024, 1, 1, 0, 0, 0, 0, time.UTC)
					for k := 0; k < 25; k++ {
						t := base.Add(time.Duration(k) * got.IterationDuration)
						if a, b := got.Rate(t), want.Rate(t); a != b {
							r.Fail("C15/defaults", fieldOf(mode, "rate-values"), fmt.Sprintf("tick %d: plan's rate function returns %d, the one built from the effective fields %d", k, a, b), input)
							break
						}
					}
				}
				r.Distinct(input)
			}
		}
		r.Sample(map[string]any{"per_field": "stage only | default only | both (stage wins) | stage states the zero value, default another (jitter 0, empty parameter value)", "observed": "tick interval and 25 rate values vs. a trigger built directly from the effective values (jitter visible through a scripted random source)"})
	}}
}

func fieldOf(mode, what string) string { return mode + "-" + what }

// longFileSuite: long stage lists through the real file reader (`f1 run file <path>`): every stage
// of the document is in the plan - the trigger's total duration is the sum over all of them - however
// many bytes the document has.
func longFileSuite() hlib.Suite {
	return hlib.Suite{Name: "long-config-files/through-the-file-reader", Run: func(r *hlib.Rec) {
		for _, n := range []int{1, 10, 700, 800, 4000, 20000} { // 700 / 800 stages: just below / above 64 KiB
			if !r.Mine() {
				continue
			}
			r.Eval()
			var b strings.Builder
			b.WriteString("scenario: sc\n" + limitsBlock() + "stages:\n")
			for i := 0; i < n; i++ {
				fmt.Fprintf(&b, "- duration: %ds\n  mode: constant\n  rate: %d/1s\n  jitter: 0\n  distribution: none\n", 1+i%3, 1+i%7)
			}
			want := time.Duration(0)
			for i := 0; i < n; i++ {
				want += time.Duration(1+i%3) * time.Second
			}
			input := fmt.Sprintf("a config file of %d constant stages (%d bytes), durations 1s,2s,3s in turn", n, b.Len())
			r.SampleCase(input)
			var tr *api.Trigger
			var err error
			if p, pv := hlib.Catch(func() { tr, _, err = (&hlib.RunSpec{Mode: "file", FileYAML: b.String()}).BuildTrigger() }); p {
				err = fmt.Errorf("panic: %v", pv)
			}
			if err != nil {
				r.Fail("C15/plan-rejected", "long-file", err.Error(), input)
				continue
			}
			if tr.Duration != want {
				r.Fail("C15/total-duration", "long-file", fmt.Sprintf("the trigger's total duration is %s, the %d stages sum to %s", tr.Duration, n, want), input)
			}
			r.Distinct(fmt.Sprint(n))
		}
	}}
}

func suites(tier string) []hlib.Suite {
	if tier == "quick" {
		return []hlib.Suite{planSuite(2), defaultsSuite("own-fields"), limitsSuite(), longFileSuite()}
	}
	return []hlib.Suite{planSuite(3), defaultsSuite("full"), limitsSuite(), longFileSuite()}
}

func main() { hlib.EnumMain("C15", suites) }
