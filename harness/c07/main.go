// Harness for C07 (E2 over fault sequences, each run through the real Run.Do on
// the default virtual-time schedule): failures and panics are contained in
// their iteration and classified correctly.
package main

import (
	"errors"
	"fmt"
	"io"
	"strconv"
	"strings"
	"time"

	"github.com/stretchr/testify/assert"

	"github.com/form3tech-oss/f1/v2/internal/options"
	"github.com/form3tech-oss/f1/v2/internal/verifharness/hlib"
	"github.com/form3tech-oss/f1/v2/internal/verifshim/vrt"
	"github.com/form3tech-oss/f1/v2/internal/verifshim/vtime"
	"github.com/form3tech-oss/f1/v2/pkg/f1"
	f1testing "github.com/form3tech-oss/f1/v2/pkg/f1/testing"
)

type behaviour struct {
	name string
	fail bool
	do   func(t *f1testing.T)
}

type custom struct{ a, b int }

type colour int

func (c colour) String() string { return [...]string{"red", "green", "blue"}[c%3] }

// the handle the scenario function (setup) received, for behaviours that use it from an iteration
var scenarioT *f1testing.T

var behaviours = []behaviour{
	{"pass", false, func(t *f1testing.T) {}},
	{"Fail", true, func(t *f1testing.T) { t.Fail() }},
	{"FailNow", true, func(t *f1testing.T) { t.FailNow() }},
	{"Error", true, func(t *f1testing.T) { t.Error(errors.New("e")) }},
	{"Errorf", true, func(t *f1testing.T) { t.Errorf("e %d", 1) }},
	{"Fatal", true, func(t *f1testing.T) { t.Fatal(errors.New("e")) }},
	{"Fatalf", true, func(t *f1testing.T) { t.Fatalf("e %d", 1) }},
	{"Require", true, func(t *f1testing.T) { t.Require().True(false) }},
	{"assert", true, func(t *f1testing.T) { assert.True(t, false) }},
	{"panic(error)", true, func(t *f1testing.T) { panic(errors.New("boom")) }},
	{"panic(string)", true, func(t *f1testing.T) { panic("boom") }},
	{"panic(int)", true, func(t *f1testing.T) { panic(42) }},
	{"panic(struct)", true, func(t *f1testing.T) { panic(custom{1, 2}) }},
	{"panic(slice)", true, func(t *f1testing.T) { panic([]int{1, 2}) }}, // values that cannot be compared with ==
	{"panic(struct-holding-a-map)", true, func(t *f1testing.T) { panic(struct{ m map[string]int }{}) }},
	{"panic(time.Duration)", true, func(t *f1testing.T) { panic(5 * time.Second) }}, // values with a String method
	{"panic(stringer-enum)", true, func(t *f1testing.T) { panic(colour(2)) }},
	// marking the scenario-level handle (the one setup got) is not marking this iteration - nor the next ones
	{"Fail-on-the-setup-handle", false, func(t *f1testing.T) { scenarioT.Fail() }},
	{"Errorf-on-the-setup-handle", false, func(t *f1testing.T) { scenarioT.Errorf("from iteration %s", t.Iteration) }},
	{"nil-map-write", true, func(t *f1testing.T) { var m map[string]int; m["x"] = 1 }},
	{"index-out-of-range", true, func(t *f1testing.T) { var s []int; i := 3; _ = s[i] }},
	{"nil-func-call", true, func(t *f1testing.T) { var f func(); f() }},
	{"panic(wrapped-error)", true, func(t *f1testing.T) { panic(fmt.Errorf("wrapped: %w", io.EOF)) }},
	{"panic(typed-nil-pointer)", true, func(t *f1testing.T) { var p *custom; panic(p) }},
	// a value whose own String method panics (a nil pointer whose String dereferences the receiver): whoever
	// renders it must survive that
	{"panic(stringer-whose-String-panics)", true, func(t *f1testing.T) { var b *badStringer; panic(b) }},
	{"panic(error-whose-Error-panics)", true, func(t *f1testing.T) { var b *badError; panic(error(b)) }},
	{"panic(nil-error-pointer)", true, func(t *f1testing.T) { var e *nilErr; var err error = e; panic(err) }},
	// boundary arguments of the failure APIs, and the APIs that do not mark failure
	{"Error(nil)", true, func(t *f1testing.T) { t.Error(nil) }},
	{"Fatal(nil)", true, func(t *f1testing.T) { t.Fatal(nil) }},
	{"Errorf(empty)", true, func(t *f1testing.T) { t.Errorf("") }},
	{"Fatalf(empty)", true, func(t *f1testing.T) { t.Fatalf("") }},
	{"Error(typed-nil)", true, func(t *f1testing.T) { var e *nilErr; t.Error(e) }},
	{"Require.NoError", true, func(t *f1testing.T) { t.Require().NoError(errors.New("e")) }},
	{"FailNow-in-timed-stage", true, func(t *f1testing.T) { t.Time("stage", func() { t.FailNow() }) }},
	{"panic(string)-in-timed-stage", true, func(t *f1testing.T) { t.Time("stage", func() { panic("boom") }) }},
	{"runtime-error-in-timed-stage", true, func(t *f1testing.T) { t.Time("stage", func() { var m map[string]int; m["x"] = 1 }) }},
	{"panic(error-spelled-FailNow)", true, func(t *f1testing.T) { panic(errors.New("FailNow")) }},
	{"Fail-then-a-passing-timed-stage", true, func(t *f1testing.T) { t.Fail(); t.Time("stage", func() {}) }},
	{"Errorf-then-a-passing-timed-stage", true, func(t *f1testing.T) { t.Errorf("e"); t.Time("", func() {}) }},
	{"Log+Logf+timed-stage", false, func(t *f1testing.T) { t.Log("x", 1); t.Logf("%d", 1); t.Time("stage", func() {}) }},
}

type badStringer struct{ n *int }

func (b *badStringer) String() string { return fmt.Sprint(*b.n) }

type badError struct{ n *int }

func (b *badError) Error() string { return fmt.Sprint(*b.n) }

type nilErr struct{}

func (*nilErr) Error() string { return "nil receiver error" }

func runSeq(r *hlib.Rec, seq []int, mode string, conc int) {
	r.Eval()
	var names []string
	wantFail, wantPass := uint64(0), uint64(0)
	for _, b := range seq {
		names = append(names, behaviours[b].name)
		if behaviours[b].fail {
			wantFail++
		} else {
			wantPass++
		}
	}
	input := fmt.Sprintf("mode=%s concurrency=%d behaviours=%s", mode, conc, strings.Join(names, ","))
	r.SampleCase(input)
	invocations := 0
	dirty := ""
	rs := &hlib.RunSpec{Mode: mode, Quiet: true, CompletionTimeout: time.Second,
		Opts: options.RunOptions{MaxDuration: 10 * time.Second, Concurrency: conc, MaxIterations: uint64(len(seq)), IgnoreDropped: true}}
	if mode == "constant" {
		perTick := conc
		if len(seq) > 20 {
			perTick = len(seq) / 10 // long sequences: ten ticks (bodies take no time, nothing is dropped)
		}
		rs.Flags = map[string]string{"rate": fmt.Sprintf("%d/100ms", perTick), "distribution": "none"}
	}
	if len(seq) > 20 {
		input = fmt.Sprintf("mode=%s concurrency=%d behaviours=%s x %d, then pass and %s alternating", mode, conc, names[0], len(seq)-6, names[0])
	}
	rs.ScenarioFn = func(t *f1testing.T) f1testing.RunFn {
		scenarioT = t
		return func(t *f1testing.T) {
			invocations++
			id, _ := strconv.Atoi(t.Iteration)
			if t.Failed() {
				dirty = fmt.Sprintf("iteration %d started with its handle already failed", id)
			}
			if mode == "users" {
				vtime.Sleep(time.Millisecond)
			}
			if id >= 1 && id <= len(seq) {
				behaviours[seq[id-1]].do(t)
			}
		}
	}
	if mode == "users" && len(seq) <= 2 {
		// short sequences also as a combined scenario (f1.CombineScenarios of this one function and a passing one)
		plain := rs.ScenarioFn
		pass := func(*f1testing.T) f1testing.RunFn { return func(*f1testing.T) {} }
		if len(seq) == 2 {
			rs.ScenarioFn = f1.CombineScenarios(plain, pass)
		} else {
			rs.ScenarioFn = f1.CombineScenarios(pass, plain)
		}
		input += " as-a-combined-scenario"
	}
	res := hlib.RunOnce(rs, -1, 0, 60*time.Second)
	if res.BuildErr != nil {
		panic(res.BuildErr)
	}
	last := behaviours[seq[len(seq)-1]].name
	switch res.Out.Status {
	case vrt.StCrash:
		r.Fail("C07/escapes", last, "a failure escaped its iteration and would have killed the process: "+firstLine(res.Out.Crash), input)
		return
	case vrt.StDeadlock, vrt.StHorizon, vrt.StStepCap:
		r.Fail("C07/worker-lost", last, "the run did not finish ("+res.Out.Status.String()+"): "+res.Out.Detail, input)
		return
	}
	if invocations != len(seq) {
		r.Fail("C07/worker-lost", "invocations", fmt.Sprintf("%d invocations, %d planned: a worker stopped taking work", invocations, len(seq)), input)
	}
	if dirty != "" {
		r.Fail("C07/dirty-handle", "failed-at-entry", dirty, input)
	}
	if res.Fail != wantFail || res.Success != wantPass {
		which := "unknown"
		for _, b := range seq {
			if behaviours[b].fail {
				which = behaviours[b].name
			}
		}
		kind := "failure-reported-as-success"
		if res.Fail > wantFail {
			kind = "success-reported-as-failure"
		}
		r.Fail("C07/classification", kind+"/"+which, fmt.Sprintf("result reports %d successful and %d failed, the behaviours are %d passing and %d failing", res.Success, res.Fail, wantPass, wantFail), input)
	}
	r.Distinct(fmt.Sprintf("%s c=%d %s", mode, conc, strings.Join(names, ",")))
}

func firstLine(s string) string {
	if i := strings.Index(s, "\n"); i >= 0 {
		return s[:i]
	}
	return s
}

func suiteOneWorker(maxLen int) hlib.Suite {
	return hlib.Suite{Name: fmt.Sprintf("one-worker/all-sequences<=%d/%d-behaviours", maxLen, len(behaviours)), Weight: 3, Run: func(r *hlib.Rec) {
		n := len(behaviours)
		var rec func(cur []int)
		rec = func(cur []int) {
			if len(cur) > 0 {
				for _, mode := range []string{"constant", "users"} {
					if r.Mine() && !r.Expired() {
						runSeq(r, cur, mode, 1)
					}
				}
			}
			if len(cur) == maxLen || r.Expired() {
				return
			}
			for b := 0; b < n; b++ {
				rec(append(append([]int(nil), cur...), b))
			}
		}
		rec(nil)
		r.Sample(map[string]any{"behaviours": len(behaviours), "lengths": maxLen, "modes": "constant,users"})
	}}
}

func suiteTwoWorkers() hlib.Suite {
	return hlib.Suite{Name: "two-workers/all-pairs-x-length-2", Weight: 1, Run: func(r *hlib.Rec) {
		n := len(behaviours)
		for a := 0; a < n; a++ {
			for b := 0; b < n; b++ {
				for _, mode := range []string{"constant", "users"} {
					if !r.Mine() || r.Expired() {
						continue
					}
					// four iterations over two workers: a b a b and a a b b interleave the pair differently
					runSeq(r, []int{a, b, a, b}, mode, 2)
					runSeq(r, []int{a, a, b, b}, mode, 2)
				}
			}
		}
		r.Sample("every ordered pair of behaviours as four iterations on two workers")
	}}
}

const overlapYAML = `scenario: s
limits:
  max-duration: 5s
  concurrency: 1
  max-iterations: 0
  ignore-dropped: true
stages:
- duration: 150ms
  mode: constant
  rate: 1/100ms
  jitter: 0
  distribution: none
- duration: 150ms
  mode: constant
  rate: 1/100ms
  jitter: 0
  distribution: none
`

// suiteOverlap: config-file stages; the first iteration outlives its stage, so
// it is still running while the next stage's worker runs its iterations. Each
// must be reported by its own outcome.
func suiteOverlap() hlib.Suite {
	return hlib.Suite{Name: "config-file-stages/iteration-outlives-its-stage", Run: func(r *hlib.Rec) {
		for _, first := range []string{"pass", "fail-early", "fail-late"} {
			for b := range behaviours {
				if !r.Mine() || r.Expired() {
					continue
				}
				r.Eval()
				input := fmt.Sprintf("iteration 1 (%s) runs 300ms and outlives stage 1; iteration 2 of stage 2 does %s", first, behaviours[b].name)
				r.SampleCase(input)
				wantFail, wantPass := uint64(0), uint64(0)
				inv := 0
				rs := &hlib.RunSpec{Mode: "file", FileYAML: overlapYAML, Quiet: true, CompletionTimeout: 2 * time.Second}
				rs.ScenarioFn = func(t *f1testing.T) f1testing.RunFn {
					return func(t *f1testing.T) {
						inv++
						id, _ := strconv.Atoi(t.Iteration)
						switch {
						case id == 1:
							if first == "fail-early" {
								t.Fail()
							}
							vtime.Sleep(300 * time.Millisecond)
							if first == "fail-late" {
								t.Fail()
							}
							if first == "pass" {
								wantPass++
							} else {
								wantFail++
							}
						case id == 2:
							if behaviours[b].fail {
								wantFail++
							} else {
								wantPass++
							}
							behaviours[b].do(t)
						default:
							wantPass++
						}
					}
				}
				res := hlib.RunOnce(rs, -1, 0, 60*time.Second)
				if res.BuildErr != nil {
					panic(res.BuildErr)
				}
				if res.Out.Status != vrt.StOK {
					r.Fail("C07/escapes", "stages:"+behaviours[b].name, res.Out.Status.String()+": "+firstLine(res.Out.Crash)+res.Out.Detail, input)
					continue
				}
				if inv < 3 {
					r.Fail("C07/harness", "no-overlap", fmt.Sprintf("only %d iterations ran: the scenario does not overlap stages", inv), input)
				}
				if res.Fail != wantFail || res.Success != wantPass {
					kind := "failure-reported-as-success"
					if res.Fail > wantFail {
						kind = "success-reported-as-failure"
					}
					r.Fail("C07/classification", kind+"/across-stages", fmt.Sprintf("result reports %d successful and %d failed, the iterations' own outcomes are %d and %d", res.Success, res.Fail, wantPass, wantFail), input)
				}
				r.Distinct(first + "/" + behaviours[b].name)
			}
		}
		r.Sample("stage 1's iteration still running while stage 2's worker runs: {pass, fails early, fails late} x 17 behaviours")
	}}
}

// suiteLong: the worker survives and classifies correctly however often it happens: one behaviour 130 (thorough 1100)
// times in a row on one worker, then passing and failing iterations alternating.
func suiteLong(n int) hlib.Suite {
	return hlib.Suite{Name: fmt.Sprintf("one-worker/one-behaviour-%d-times-then-alternating", n), Run: func(r *hlib.Rec) {
		for b := range behaviours {
			for _, mode := range []string{"constant", "users"} {
				if !r.Mine() || r.Expired() {
					continue
				}
				var seq []int
				for i := 0; i < n; i++ {
					seq = append(seq, b)
				}
				seq = append(seq, 0, b, 0, b, 0, b) // behaviour 0 passes
				runSeq(r, seq, mode, 1)
			}
		}
	}}
}

func suites(tier string) []hlib.Suite {
	if tier == "quick" {
		return []hlib.Suite{suiteOneWorker(3), suiteTwoWorkers(), suiteOverlap(), suiteLong(130)}
	}
	return []hlib.Suite{suiteOneWorker(4), suiteTwoWorkers(), suiteOverlap(), suiteLong(130), suiteLong(1100)}
}

func main() { hlib.EnumMain("C07", suites) }
