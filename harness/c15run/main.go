// Harness for C15, run part (E1): stages execute strictly one after another,
// each stage's parameters are present in the environment while it triggers,
// and none of them remain set after the run. Drives the real stages worker
// (newStagesWorker) with hand-built stages in virtual time.
package main

import (
	"fmt"
	"os"
	"sort"
	"strings"
	"time"

	"github.com/prometheus/client_golang/prometheus"

	"github.com/form3tech-oss/f1/v2/internal/metrics"
	"github.com/form3tech-oss/f1/v2/internal/options"
	"github.com/form3tech-oss/f1/v2/internal/progress"
	"github.com/form3tech-oss/f1/v2/internal/trigger/file"
	"github.com/form3tech-oss/f1/v2/internal/ui"
	"github.com/form3tech-oss/f1/v2/internal/verifharness/hlib"
	"github.com/form3tech-oss/f1/v2/internal/verifshim/vatomic"
	"github.com/form3tech-oss/f1/v2/internal/verifshim/vctx"
	"github.com/form3tech-oss/f1/v2/internal/verifshim/vrt"
	"github.com/form3tech-oss/f1/v2/internal/verifshim/vtime"
	"github.com/form3tech-oss/f1/v2/internal/workers"
	"github.com/form3tech-oss/f1/v2/pkg/f1/scenarios"
	f1testing "github.com/form3tech-oss/f1/v2/pkg/f1/testing"
)

var allKeys = []string{"VERIF_A", "VERIF_B", "VERIF_C"}

type stageCfg struct {
	users  int
	params map[string]string
}

type cfg struct {
	name   string
	stages []stageCfg
	cancel time.Duration     // caller cancels at this instant (-1 never)
	limit  uint64            // max-iterations (0: none)
	twice  bool              // the same stages worker is run a second time (a second run with the same trigger)
	preset map[string]string // already in the process environment when the run starts (names of the first stage's parameters)
	// the scenario's bodies overwrite the value of every parameter they find set (a token they refresh);
	// the oracle then compares names only while stages run - and still nothing may remain afterwards
	overwrite bool
}

func envNow() string {
	var p []string
	for _, k := range allKeys {
		if v, ok := os.LookupEnv(k); ok {
			p = append(p, k+"="+v)
		}
	}
	return strings.Join(p, ",")
}

func want(params map[string]string) string {
	var p []string
	for _, k := range allKeys {
		if v, ok := params[k]; ok {
			p = append(p, k+"="+v)
		}
	}
	sort.Strings(p)
	return strings.Join(p, ",")
}

func namesOnly(env string) string {
	var p []string
	for _, kv := range strings.Split(env, ",") {
		p = append(p, strings.SplitN(kv, "=", 2)[0])
	}
	return strings.Join(p, ",")
}

func scenario(c cfg) vrt.Scenario {
	body := func() {
		for _, k := range allKeys {
			os.Unsetenv(k)
		}
		for k, v := range c.preset {
			os.Setenv(k, v)
		}
		stats := &progress.Stats{}
		vatomic.QuietAll(stats)
		m := metrics.NewInstance(prometheus.NewRegistry(), false, nil)
		cur := -1 // index of the stage whose rate function / body is being evaluated (for the body's log)
		sc := &scenarios.Scenario{Name: "s", RunFn: func(t *f1testing.T) {
			vrt.LogQuiet(fmt.Sprintf("body %s", envNow()))
			if c.overwrite {
				for _, k := range allKeys {
					if _, ok := os.LookupEnv(k); ok {
						os.Setenv(k, "refreshed")
					}
				}
			}
			vtime.Sleep(20 * time.Millisecond)
		}}
		_ = cur
		as := workers.NewActiveScenario(sc, m, stats, hlib.DiscardLogger(), hlib.DiscardLogrus())
		// fresh maps for every execution (the code under test may modify them); stages that were given
		// the same map in the configuration share one object here too, as stages that inherit
		// default.parameters do after parsing
		fresh := map[string]map[string]string{}
		var vs []file.VerifStage
		for i, s := range c.stages {
			i := i
			key := fmt.Sprintf("%p", s.params)
			if _, ok := fresh[key]; !ok && s.params != nil {
				m := map[string]string{}
				for k, v := range s.params {
					m[k] = v
				}
				fresh[key] = m
			}
			st := file.VerifStage{Params: fresh[key], StageDuration: 300 * time.Millisecond, IterationDuration: 100 * time.Millisecond, UsersConcurrency: s.users}
			st.Rate = func(time.Time) int {
				vrt.LogQuiet(fmt.Sprintf("eval %d %s", i, envNow()))
				return 1
			}
			vs = append(vs, st)
		}
		worker := file.VerifStagesWorkerOf(vs)
		runs := 1
		if c.twice {
			runs = 2
		}
		for n := 0; n < runs; n++ {
			mgr := workers.New(c.limit, as)
			ctx, cancel := vctx.WithCancel(vctx.Background())
			if c.cancel >= 0 {
				vrt.GoNamed("caller-cancel", func() {
					vtime.Sleep(c.cancel)
					cancel()
				})
			}
			vrt.LogQuiet("run-start")
			worker(ctx, ui.NewDiscardOutput(), mgr, options.RunOptions{Concurrency: 1})
			vrt.LogQuiet("worker-returned " + envNow())
			cancel()
			vrt.Recv(mgr.WaitForCompletion())
		}
	}
	post := func(o *vrt.Outcome) {
		switch o.Status {
		case vrt.StDeadlock, vrt.StHorizon:
			o.Fail("C15/run-no-return", "blocked", o.Detail)
			return
		case vrt.StCrash:
			o.Fail("C15/run-crash", "panic", o.Crash)
			return
		}
		last, runNo := -1, 0
		for _, ev := range o.Log {
			f := strings.SplitN(ev, " ", 3)
			switch f[0] {
			case "run-start":
				runNo++
				last = -1
			case "eval":
				var i int
				fmt.Sscan(f[1], &i)
				env := ""
				if len(f) > 2 {
					env = f[2]
				}
				firstRate := 0 // users stages evaluate no rate
				for firstRate < len(c.stages) && c.stages[firstRate].users > 0 {
					firstRate++
				}
				if last == -1 && i != firstRate {
					o.Fail("C15/stage-order", "does-not-start-with-the-first-stage", fmt.Sprintf("run %d of the trigger: the first rate evaluated is stage %d's", runNo, i))
				}
				if i < last {
					o.Fail("C15/stage-order", "overlap", fmt.Sprintf("stage %d's rate was evaluated after stage %d had started evaluating", i, last))
				}
				if i > last {
					last = i
				}
				w := want(c.stages[i].params)
				if c.overwrite {
					env, w = namesOnly(env), namesOnly(w)
				}
				if env != w {
					o.Fail("C15/stage-env", "wrong-parameters", fmt.Sprintf("stage %d evaluated its rate with environment {%s}, its parameters are {%s}", i, env, w))
				}
			case "worker-returned":
				env := ""
				if len(f) > 1 {
					env = strings.TrimPrefix(ev, "worker-returned ")
				}
				if env != "" {
					o.Fail("C15/env-left", "still-set", "after the stages worker returned the environment still has {"+env+"}")
				}
				if c.cancel < 0 && c.limit == 0 && last != len(c.stages)-1 && o.Cost == 0 {
					o.Fail("C15/stage-order", fmt.Sprintf("not-all-stages/run-%d", runNo), fmt.Sprintf("run %d of the trigger: only stages up to %d of %d were run", runNo, last, len(c.stages)))
				}
			}
		}
		o.Sig = fmt.Sprintf("last=%d events=%d", last, len(o.Log))
	}
	return vrt.Scenario{Name: "stages/" + c.name, Body: body, Post: post, Memo: true, Horizon: time.Minute, MaxSteps: 60000}
}

func scenariosFor(tier string) []vrt.Scenario {
	a := map[string]string{"VERIF_A": "1"}
	b := map[string]string{"VERIF_B": "2"}
	ab1 := map[string]string{"VERIF_A": "x", "VERIF_B": "x"}
	a2 := map[string]string{"VERIF_A": "y", "VERIF_C": "y"}
	cfgs := []cfg{
		{"distinct-keys", []stageCfg{{0, a}, {0, b}}, -1, 0, false, nil, false},
		{"empty-parameter-value", []stageCfg{{0, a}, {0, map[string]string{"VERIF_A": "", "VERIF_B": "2"}}, {0, map[string]string{"VERIF_C": ""}}}, -1, 0, false, nil, false},
		{"inherited-parameters-shared-by-stages", []stageCfg{{0, ab1}, {0, a2}, {0, ab1}, {1, ab1}, {0, ab1}}, -1, 0, false, nil, false},
		{"two-runs-of-one-trigger", []stageCfg{{0, a}, {0, ab1}}, -1, 0, true, nil, false},
		{"two-runs-of-one-trigger/first-cut-short", []stageCfg{{0, a}, {0, ab1}}, 350 * time.Millisecond, 0, true, nil, false},
		{"parameter-name-already-in-the-process-environment", []stageCfg{{0, ab1}, {0, b}}, -1, 0, false, map[string]string{"VERIF_A": "outer", "VERIF_B": ""}, false},
		{"bodies-overwrite-their-parameters", []stageCfg{{0, ab1}, {1, a2}, {0, b}}, -1, 0, false, nil, true},
		{"overlapping-keys", []stageCfg{{0, ab1}, {0, a2}}, -1, 0, false, nil, false},
		{"overlapping-keys-users-first", []stageCfg{{1, ab1}, {0, a2}}, -1, 0, false, nil, false},
		{"three-stages", []stageCfg{{0, a}, {1, ab1}, {0, a2}}, -1, 0, false, nil, false},
		{"cancel-in-first-stage", []stageCfg{{0, ab1}, {0, a2}}, 150 * time.Millisecond, 0, false, nil, false},
		{"cancel-at-stage-boundary", []stageCfg{{0, ab1}, {0, a2}}, 300 * time.Millisecond, 0, false, nil, false},
		{"no-parameters", []stageCfg{{0, nil}, {0, a}}, -1, 0, false, nil, false},
		// parameter names the operating system rejects (an "=" inside, the empty name) next to ordinary ones: the ordinary
		// ones are all present while the stage triggers (map order is the runtime's: with four bad names among seven a
		// loop that gives up at the first rejected one leaves something unset in 34 of 35 stage entries)
		{"names-the-os-rejects-next-to-ordinary-ones", []stageCfg{{0, map[string]string{"VERIF_A": "1", "VERIF_B": "2", "VERIF_C": "3", "BAD=NAME": "x", "": "y", "=": "z", "A=B=C": "w"}}, {0, map[string]string{"VERIF_A": "4", "VERIF_C": "5", "BAD=NAME": "x", "": "y", "=lead": "z"}}}, -1, 0, false, nil, false},
		{"limit-reached-in-first-stage", []stageCfg{{0, a}, {0, ab1}, {0, a2}}, -1, 2, false, nil, false},
		{"limit-reached-in-users-stage", []stageCfg{{1, ab1}, {0, a2}}, -1, 1, false, nil, false},
	}
	var out []vrt.Scenario
	out = append(out, scenario(cfgs[0]).WithPlainPoints(1), scenario(cfgs[2]).WithPlainPoints(1))
	for _, c := range cfgs {
		s := scenario(c)
		s.UnorderedSUT = strings.HasPrefix(c.name, "names-the-os-rejects") // setEnvs ranges over the parameter map
		s.Bound = 1
		if tier != "quick" {
			s.Bound = 2
		}
		if c.cancel >= 0 || len(c.stages) > 2 {
			s.Delay = true
			s.Bound++
			s.Name += "/policy=delay"
		}
		out = append(out, s)
	}
	return out
}

func main() { vrt.Main("C15", scenariosFor) }
