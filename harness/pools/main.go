// Harness "pools": the real workers.PoolManager / TriggerPool / ContinuousPool
// / ActiveScenario driven by a scripted ticking thread. Serves C02
// (conservation of requested work), C03 (max-iterations ceiling, ids) and C04
// (concurrency ceiling, handle exclusivity, all workers usable); selected with
// -prop.
package main

import (
	"flag"
	"fmt"
	"sort"
	"strconv"
	"strings"
	"time"

	"github.com/prometheus/client_golang/prometheus"

	"github.com/form3tech-oss/f1/v2/internal/metrics"
	"github.com/form3tech-oss/f1/v2/internal/options"
	"github.com/form3tech-oss/f1/v2/internal/progress"
	"github.com/form3tech-oss/f1/v2/internal/trigger/file"
	"github.com/form3tech-oss/f1/v2/internal/trigger/users"
	"github.com/form3tech-oss/f1/v2/internal/ui"
	"github.com/form3tech-oss/f1/v2/internal/verifharness/hlib"
	"github.com/form3tech-oss/f1/v2/internal/verifshim/vatomic"
	"github.com/form3tech-oss/f1/v2/internal/verifshim/vctx"
	"github.com/form3tech-oss/f1/v2/internal/verifshim/vrt"
	"github.com/form3tech-oss/f1/v2/internal/verifshim/vtime"
	"github.com/form3tech-oss/f1/v2/internal/workers"
	"github.com/form3tech-oss/f1/v2/pkg/f1/scenarios"
	f1testing "github.com/form3tech-oss/f1/v2/pkg/f1/testing"
)

var prop = flag.String("prop", "C02", "C02|C03|C04")

type tick struct {
	n int
	q bool // issued at quiescence (model predicts exactly) or immediately after the previous one
}

type cfg struct {
	kind    string // "trigger", "continuous", "stages"
	workers int
	limit   uint64
	ticks   []tick
	gate    string // "none": instant bodies; "all": every body blocks until the gate opens (after the stop); "barrier": bodies wait until `workers` bodies have entered
	stop    string // "cancel-q", "cancel-now", "cancel-race", "limit"
	bodyDur time.Duration
	runFor  time.Duration // continuous / stages: cancel after this much virtual time (0: rely on the limit)
}

func (c cfg) name() string {
	var ts []string
	for _, t := range c.ticks {
		s := strconv.Itoa(t.n)
		if t.q {
			s += "q"
		}
		ts = append(ts, s)
	}
	return fmt.Sprintf("%s/%s/w=%d/limit=%d/ticks=%s/gate=%s/stop=%s/body=%s/run=%s", *prop, c.kind, c.workers, c.limit, strings.Join(ts, "-"), c.gate, c.stop, c.bodyDur, c.runFor)
}

// world is the per-execution ground truth. Counters whose interleaving the
// oracle depends on are shim atomics (so their order is part of the state key).
type world struct {
	c             cfg
	started       int64 // plain: a function of how far each worker has got
	inflight      int64
	entered       int64
	flight        vrt.Obj // C04: entering/leaving a body is a tracked write, so the overlap order is part of the state key
	gateOpen      vatomic.Bool
	hw            int64
	ids           []string
	live          map[*f1testing.T]bool
	sameT         bool
	over          bool // started exceeded the limit at some instant
	stats         *progress.Stats
	mgr           *workers.PoolManager
	pool          *workers.TriggerPool
	expStart      int64 // model: starts expected after the quiescent prefix
	expDrop       int64
	exact         bool  // all ticks quiescent: model is exact
	definite      int64 // requests certainly made with a live context
	racing        int64 // the one request racing the cancel
	mainDone      bool
	limitSeen     bool
	failedAtEntry bool
	idChanged     string
}

var w *world

func (x *world) body(t *f1testing.T) {
	if t.Failed() {
		x.failedAtEntry = true
	}
	track := *prop == "C04"
	if track {
		vrt.Touch(&x.flight, true, 1)
	}
	x.inflight++
	if x.inflight > x.hw {
		x.hw = x.inflight
	}
	if x.live[t] {
		x.sameT = true
	}
	x.live[t] = true
	x.started++
	if x.c.limit > 0 && uint64(x.started) > x.c.limit {
		x.over = true
	}
	x.ids = append(x.ids, t.Iteration)
	myIdx := len(x.ids) - 1
	switch x.c.gate {
	case "all", "all-open-after-ticks":
		vrt.WaitUntil("gate", func() bool { return x.gateOpen.Peek() })
	case "barrier":
		x.entered++
		need := int64(x.c.workers)
		vrt.WaitUntil("barrier", func() bool { return x.entered >= need })
	case "yield":
		vrt.Yield()
	case "cleanup-fails-then-barrier":
		// the first iteration's cleanup fails (a failed teardown of one iteration); afterwards all
		// workers must still be able to execute at the same time
		if myIdx == 0 {
			t.Cleanup(func() { t.Fail() })
		} else {
			x.entered++
			need := int64(x.c.workers)
			vrt.WaitUntil("barrier-after-failed-cleanup", func() bool { return x.entered >= need })
		}
	case "first-passes-then-barrier":
		// a tick smaller than the pool wakes workers that find nothing to do; afterwards all
		// workers must still be there to execute at the same time
		if myIdx > 0 {
			x.entered++
			need := int64(x.c.workers)
			vrt.WaitUntil("barrier-after-a-small-tick", func() bool { return x.entered >= need })
		}
	case "first-waits-for-last":
		// one slow iteration: the first one started does not finish before the last allowed one has begun,
		// so the other workers have to run everything in between (and, in users mode, keep going)
		if myIdx == 0 {
			last := int(x.c.limit)
			vrt.WaitUntil("last-iteration-begun", func() bool { return len(x.ids) >= last })
		}
	}
	if x.c.bodyDur > 0 {
		vtime.Sleep(x.c.bodyDur)
	}
	if t.Iteration != x.ids[myIdx] {
		x.idChanged = fmt.Sprintf("an iteration entered with id %s and saw %q before returning", x.ids[myIdx], t.Iteration)
	}
	if track {
		vrt.Touch(&x.flight, true, 2)
	}
	delete(x.live, t)
	x.inflight--
}

func scenario(c cfg) vrt.Scenario {
	body := func() {
		x := &world{c: c, live: map[*f1testing.T]bool{}, stats: &progress.Stats{}}
		w = x
		// interleavings inside progress.Stats are C01's business: its atomics are
		// single steps here, without their own scheduling points
		vatomic.QuietAll(x.stats)
		m := metrics.NewInstance(prometheus.NewRegistry(), false, nil)
		sc := &scenarios.Scenario{Name: "s", RunFn: x.body}
		as := workers.NewActiveScenario(sc, m, x.stats, hlib.DiscardLogger(), hlib.DiscardLogrus())
		mgr := workers.New(c.limit, as)
		x.mgr = mgr
		ctx, cancel := vctx.WithCancel(vctx.Background())
		defer cancel()
		switch c.kind {
		case "trigger":
			x.driveTrigger(ctx, cancel, mgr)
		case "continuous":
			udone := make(chan struct{})
			vrt.GoNamed("users", func() {
				users.NewWorker(c.workers)(ctx, ui.NewDiscardOutput(), mgr, options.RunOptions{Concurrency: c.workers})
				vrt.Close(udone)
			})
			if c.gate == "barrier" {
				// cancel only once every worker is inside a body at the same time; if
				// they cannot all be, this wait never ends and the deadlock is the finding
				need := int64(c.workers)
				vrt.WaitUntil("all-workers-in", func() bool { return x.entered >= need })
				cancel()
			} else if c.runFor > 0 {
				vtime.Sleep(c.runFor)
				cancel()
			}
			if c.gate == "all" {
				x.gateOpen.Store(true)
			}
			vrt.Recv(udone)
			// the users trigger returns when its context ends; in-flight bodies are
			// awaited separately, as Run.run does
			vrt.Recv(mgr.WaitForCompletion())
		case "stages-rate":
			// two rate-driven stages on one manager; the limit is reached during the first
			yaml := fmt.Sprintf(`scenario: s
limits:
  max-duration: 1m
  concurrency: %d
  max-iterations: %d
  ignore-dropped: false
stages:
- duration: 300ms
  mode: constant
  rate: 2/100ms
  jitter: 0
  distribution: none
- duration: 300ms
  mode: constant
  rate: 1/100ms
  jitter: 0
  distribution: none
`, c.workers, c.limit)
			rs, err := file.ParseConfigFile([]byte(yaml), vtime.Now())
			if err != nil {
				panic(err)
			}
			done := make(chan struct{})
			vrt.GoNamed("stages", func() {
				rs.VerifStagesWorker()(ctx, ui.NewDiscardOutput(), mgr, options.RunOptions{Concurrency: c.workers, MaxIterations: c.limit})
				vrt.Close(done)
			})
			vrt.Recv(done)
			cancel()
			vrt.Recv(mgr.WaitForCompletion())
		case "stages":
			yaml := fmt.Sprintf(`scenario: s
limits:
  max-duration: 1m
  concurrency: %d
  max-iterations: %d
  ignore-dropped: true
stages:
- duration: 1s
  mode: constant
  rate: 2/s
  jitter: 0
  distribution: none
- duration: 1s
  mode: users
`, c.workers, c.limit)
			rs, err := file.ParseConfigFile([]byte(yaml), vtime.Now())
			if err != nil {
				panic(err)
			}
			done := make(chan struct{})
			vrt.GoNamed("stages", func() {
				rs.VerifStagesWorker()(ctx, ui.NewDiscardOutput(), mgr, options.RunOptions{Concurrency: c.workers, MaxIterations: c.limit})
				vrt.Close(done)
			})
			vrt.Recv(done)
			cancel()
			vrt.Recv(mgr.WaitForCompletion())
		}
		x.limitSeen = mgr.MaxIterationsReached()
		x.mainDone = true
	}
	return vrt.Scenario{Name: c.name(), Body: body, Post: func(o *vrt.Outcome) { oracle(c, o) }, Memo: true, Horizon: time.Minute}
}

func (x *world) driveTrigger(ctx vctx.Context, cancel func(), mgr *workers.PoolManager) {
	c := x.c
	pool := mgr.NewTriggerPool(c.workers)
	if _, ok := pool.VerifPendingOK(); !ok {
		vrt.Infra("the accessor cannot find the pending-request counter of TriggerPool (the structure was refactored): this harness cannot observe quiescence")
	}
	if _, ok := pool.VerifStoppedOK(); !ok {
		vrt.Infra("the accessor cannot find the stop flag of TriggerPool (the structure was refactored)")
	}
	x.pool = pool
	wctx := pool.Start(ctx)
	hlib.StopWhenDone(wctx, pool)
	busy, left := int64(0), int64(0)
	x.exact = true
	quiesce := func() {
		exp := x.expStart
		vrt.WaitUntil("quiescent", func() bool {
			if x.started < exp {
				return false
			}
			if c.gate == "all" || c.gate == "barrier" || (c.gate == "all-open-after-ticks" && !x.gateOpen.Peek()) {
				return true
			}
			if pool.VerifStopped() {
				return true // nothing more will be taken; the oracle looks at what is left
			}
			return pool.VerifPending() <= 0 && x.inflight == 0
		})
	}
	for i, tk := range c.ticks {
		last := i == len(c.ticks)-1
		requested := tk.n
		if tk.n < 0 {
			tk.n = 0 // a negative value asks for nothing; the pool is still handed the value as it is
		}
		if tk.q {
			quiesce()
		} else if i > 0 {
			x.exact = false
		}
		// reference model (meaningful while every tick so far was quiescent)
		x.expDrop += left
		avail := int64(c.workers) - busy
		st := int64(tk.n)
		if c.gate == "all" || c.gate == "all-open-after-ticks" {
			if st > avail {
				st = avail
			}
			busy += st
		}
		left = int64(tk.n) - st
		if c.limit > 0 {
			if x.expStart+st > int64(c.limit) {
				st = int64(c.limit) - x.expStart
				left = 0
			}
		}
		x.expStart += st
		if last && c.stop == "cancel-race" {
			x.racing = int64(tk.n)
			vrt.GoNamed("canceller", cancel)
		} else {
			x.definite += int64(tk.n)
		}
		pool.Trigger(wctx, requested)
	}
	if c.gate == "all-open-after-ticks" {
		// what the last tick left pending is still wanted: once the bodies are released
		// the workers take it (a tick of 0 before that must have discarded everything)
		quiesce()
		x.expStart += left
		left = 0
		x.gateOpen.Store(true)
	}
	switch c.stop {
	case "cancel-q":
		quiesce()
		x.expDrop += left
		cancel()
		// what is pending at the stop may be started or dropped; to keep the
		// model exact let the stop path finish before the gate opens
		vrt.WaitUntil("stopped", func() bool { return pool.VerifStopped() && pool.VerifPending() <= 0 })
	case "cancel-now":
		x.exact = false
		cancel()
	case "cancel-race":
		x.exact = false
	case "limit":
		quiesce()
		cancel()
	}
	x.gateOpen.Store(true)
	vrt.Recv(mgr.WaitForCompletion())
}

func oracle(c cfg, o *vrt.Outcome) {
	p := *prop
	x := w
	switch o.Status {
	case vrt.StDeadlock:
		o.Fail(p+"/deadlock", blockedOps(o.Detail), "deadlock (a lost wake-up, a worker that never becomes available, or work the model says must start never started): "+o.Detail)
		return
	case vrt.StCrash:
		o.Fail(p+"/crash", "panic", o.Crash)
		return
	case vrt.StHorizon:
		o.Fail(p+"/no-return", blockedOps(o.Detail), "did not finish: "+o.Detail)
		return
	}
	started := x.started
	dropped := int64(x.stats.Total().DroppedIterationCount)
	o.Sig = fmt.Sprintf("started=%d dropped=%d hw=%d", started, dropped, x.hw)
	switch p {
	case "C02":
		if c.kind == "stages-rate" {
			// the ticks are timer-driven here: under deviations a slow worker can legitimately
			// have work superseded by the next tick, so silence is asked on the default schedule only
			if dropped != 0 && o.Cost == 0 {
				o.Fail("C02/limit-drop-reported", "later-stage", fmt.Sprintf("limit %d reached during the first stage: %d requests of the later stage reported dropped (started %d)", c.limit, dropped, started))
			}
			if started != int64(c.limit) && o.Cost == 0 {
				o.Fail("C02/limit-started", "stages", fmt.Sprintf("limit %d: started %d", c.limit, started))
			}
			return
		}
		if c.kind != "trigger" {
			return
		}
		lo, hi := x.definite, x.definite+x.racing
		if pend := x.pool.VerifPending(); pend > 0 {
			o.Fail("C02/conservation", "pending-forever", fmt.Sprintf("%d requests still pending after everything stopped: neither started nor reported dropped nor discarded (started %d, dropped %d, requested %d+%d, limit %d)", pend, started, dropped, lo, x.racing, c.limit))
		}
		if c.limit > 0 && c.stop == "limit" {
			if dropped != 0 {
				o.Fail("C02/limit-drop-reported", fmt.Sprintf("limit"), fmt.Sprintf("limit %d: %d requests reported dropped although every tick was issued with nothing pending or after the limit was reached (started %d)", c.limit, dropped, started))
			}
			want := lo
			if int64(c.limit) < want {
				want = int64(c.limit)
			}
			if started != want {
				o.Fail("C02/limit-started", "count", fmt.Sprintf("limit %d, requested %d: started %d, want %d", c.limit, lo, started, want))
			}
		} else {
			if started+dropped > hi {
				o.Fail("C02/conservation", "more-than-requested", fmt.Sprintf("started %d + dropped %d > requested %d", started, dropped, hi))
			}
			if started+dropped != lo && started+dropped != hi {
				o.Fail("C02/conservation", "lost-request", fmt.Sprintf("started %d + dropped %d, requested %d (racing tick of %d counts fully or not at all)", started, dropped, lo, x.racing))
			}
			if x.exact {
				if started != x.expStart || dropped != x.expDrop {
					o.Fail("C02/exact", "quiescent-ticks", fmt.Sprintf("all ticks issued at quiescence: started %d dropped %d, reference model says %d and %d", started, dropped, x.expStart, x.expDrop))
				}
			}
		}
	case "C03":
		if c.limit > 0 {
			if x.over || uint64(started) > c.limit {
				o.Fail("C03/ceiling", "exceeded", fmt.Sprintf("limit %d: %d invocations", c.limit, started))
			}
			requested := x.definite
			if c.kind != "trigger" {
				requested = 1 << 40 // users mode and the stages plan keep requesting
			}
			sure := requested >= int64(c.limit) && (c.kind != "stages" || o.Cost == 0)
			// (under early timer expiry a stage may end before the limit is reached)
			if (sure || x.limitSeen) && uint64(started) != c.limit {
				o.Fail("C03/exactly-n", "short", fmt.Sprintf("limit %d (requested >= limit: %v, limit reported reached: %v): %d invocations", c.limit, sure, x.limitSeen, started))
			}
			if c.kind == "trigger" {
				refused := requested > int64(c.limit)
				if x.limitSeen != refused {
					o.Fail("C03/limit-flag", fmt.Sprint(x.limitSeen), fmt.Sprintf("MaxIterationsReached()=%v but a request was refused=%v (limit %d, requested %d)", x.limitSeen, refused, c.limit, requested))
				}
			} else if sure && !x.limitSeen {
				o.Fail("C03/limit-flag", "false", "MaxIterationsReached() is false although the limit stopped the run")
			}
		}
		if x.idChanged != "" {
			o.Fail("C03/ids", "changed-while-running", x.idChanged)
		}
		ids := append([]string(nil), x.ids...)
		nums := make([]int, 0, len(ids))
		for _, s := range ids {
			n, err := strconv.Atoi(s)
			if err != nil {
				o.Fail("C03/ids", "not-a-number", "iteration id "+s)
				return
			}
			nums = append(nums, n)
		}
		sort.Ints(nums)
		for i, n := range nums {
			if n != i+1 {
				o.Fail("C03/ids", "not-1..k", fmt.Sprintf("observed iteration ids %v are not exactly 1..%d", nums, len(nums)))
				break
			}
		}
	case "C04":
		if x.hw > int64(c.workers) {
			o.Fail("C04/ceiling", "exceeded", fmt.Sprintf("%d iterations in flight with concurrency %d", x.hw, c.workers))
		}
		if x.sameT {
			o.Fail("C04/handle", "shared", "two concurrently executing iterations were handed the same test handle")
		}
		if c.gate == "barrier" && x.hw < int64(c.workers) {
			o.Fail("C04/usable", "not-all-workers", fmt.Sprintf("only %d of %d workers were ever executing at once", x.hw, c.workers))
		}
	}
	if x.failedAtEntry {
		o.Fail(p+"/dirty-handle", "failed-at-entry", "an iteration started with its handle already marked failed")
	}
	for _, l := range o.Leaks {
		o.Fail(p+"/goroutine-left", strings.TrimSpace(strings.SplitN(l, ":", 2)[1]), "thread still alive after the pool stopped: "+l)
		break
	}
}

func blockedOps(detail string) string {
	var ops []string
	for _, p := range strings.Split(detail, "; ") {
		if i := strings.Index(p, ": "); i >= 0 {
			ops = append(ops, p[i+2:])
		}
	}
	sort.Strings(ops)
	return strings.Join(ops, "|")
}

func scenariosFor(tier string) []vrt.Scenario {
	var out []vrt.Scenario
	add := func(b int, c cfg) {
		s := scenario(c)
		s.Bound = b
		out = append(out, s)
	}
	addDelay := func(d int, c cfg) {
		s := scenario(c)
		s.Name += "/policy=delay"
		s.Bound = d
		s.Delay = true
		out = append(out, s)
	}
	plain := func(bound int, delay bool, c cfg) {
		s := scenario(c).WithPlainPoints(bound)
		if delay {
			s.Delay = true
			s.Name += "/policy=delay"
		}
		out = append(out, s)
	}
	q := func(ns ...int) []tick {
		var t []tick
		for _, n := range ns {
			t = append(t, tick{n, true})
		}
		return t
	}
	im := func(ns ...int) []tick { // first at start, the rest immediately
		var t []tick
		for _, n := range ns {
			t = append(t, tick{n, false})
		}
		return t
	}
	quick := tier == "quick"
	switch *prop {
	case "C02":
		// quick: every schedule with <=2 preemptions for one worker, <=1 for two
		// (free switches at blocking points in both), plus delay-bounded d=2 for two;
		// thorough: b=3 / b=2 / unbounded for the smallest.
		bw := map[int]int{1: 2, 2: 1, 3: 1}
		if !quick {
			bw = map[int]int{1: 3, 2: 2, 3: 1}
		}
		for _, wk := range []int{1, 2} {
			b := bw[wk]
			add(b, cfg{kind: "trigger", workers: wk, ticks: q(1, 2), gate: "none", stop: "cancel-q"})
			add(b, cfg{kind: "trigger", workers: wk, ticks: q(3, 1), gate: "all", stop: "cancel-q"})
			add(b, cfg{kind: "trigger", workers: wk, ticks: q(3, 0), gate: "all-open-after-ticks", stop: "cancel-q"}) // a tick of 0 supersedes what is pending
			add(b, cfg{kind: "trigger", workers: wk, ticks: im(2, 1), gate: "none", stop: "cancel-now"})
			add(b, cfg{kind: "trigger", workers: wk, ticks: q(1, 3), gate: "none", stop: "cancel-race"})
			add(b, cfg{kind: "trigger", workers: wk, ticks: q(2, 2), gate: "none", stop: "limit", limit: 1})
			add(b, cfg{kind: "trigger", workers: wk, ticks: q(1, 2, 2), gate: "none", stop: "limit", limit: 2})
		}
		addDelay(2, cfg{kind: "trigger", workers: 2, ticks: q(1, 3), gate: "none", stop: "cancel-race"})
		addDelay(2, cfg{kind: "trigger", workers: 2, ticks: q(2, 2), gate: "none", stop: "limit", limit: 1})
		addDelay(2, cfg{kind: "trigger", workers: 3, ticks: im(3, 2), gate: "none", stop: "cancel-now"})
		addDelay(1, cfg{kind: "stages-rate", workers: 2, limit: 3})
		add(0, cfg{kind: "stages-rate", workers: 1, limit: 2})
		if !quick {
			for _, wk := range []int{1, 2, 3} {
				b := bw[wk]
				add(b, cfg{kind: "trigger", workers: wk, ticks: q(0, 2, 0), gate: "none", stop: "cancel-q"})
				add(b, cfg{kind: "trigger", workers: wk, ticks: q(2, 3, 1), gate: "all", stop: "cancel-q"})
				add(b, cfg{kind: "trigger", workers: wk, ticks: im(3, 2, 1), gate: "none", stop: "cancel-now"})
				add(b, cfg{kind: "trigger", workers: wk, ticks: im(2, 0, 2), gate: "none", stop: "cancel-race"})
				add(b, cfg{kind: "trigger", workers: wk, ticks: q(2), gate: "none", stop: "cancel-race"})
				add(b, cfg{kind: "trigger", workers: wk, ticks: q(3, 3), gate: "none", stop: "limit", limit: 2})
				add(b, cfg{kind: "trigger", workers: wk, ticks: q(1, 1, 1), gate: "none", stop: "limit", limit: 2})
				addDelay(3, cfg{kind: "trigger", workers: wk, ticks: q(1, 3), gate: "none", stop: "cancel-race"})
				addDelay(3, cfg{kind: "trigger", workers: wk, ticks: q(2, 2), gate: "none", stop: "limit", limit: 1})
			}
			add(1000, cfg{kind: "trigger", workers: 1, ticks: q(1), gate: "none", stop: "cancel-race"})
			add(1000, cfg{kind: "trigger", workers: 1, ticks: q(2, 1), gate: "none", stop: "limit", limit: 1})
		}
		plain(1, true, cfg{kind: "trigger", workers: 2, ticks: q(2, 1), gate: "none", stop: "cancel-q"})
		plain(1, true, cfg{kind: "trigger", workers: 2, ticks: q(3), gate: "none", stop: "limit", limit: 2})
		// a limit that is set but never reached (the workers are held busy, the caller cancels): requests are superseded
		// and dropped exactly as without a limit
		for _, wk := range []int{1, 2} {
			add(bw[wk], cfg{kind: "trigger", workers: wk, ticks: q(5, 5), gate: "all", stop: "cancel-q", limit: uint64(wk) + 2})
		}
		// requests left pending when the limit is reached (a tick two and more above the limit): discarded silently
		for _, wk := range []int{1, 2} {
			add(bw[wk], cfg{kind: "trigger", workers: wk, ticks: q(3), gate: "none", stop: "limit", limit: 1})
			add(bw[wk], cfg{kind: "trigger", workers: wk, ticks: q(1, 6), gate: "none", stop: "limit", limit: 3})
		}
		// a negative tick requests nothing (and leaves nothing "pending")
		add(1, cfg{kind: "trigger", workers: 1, ticks: q(-3, 2, -1), gate: "none", stop: "cancel-q"})
		addDelay(1, cfg{kind: "trigger", workers: 2, ticks: q(2, -2, 1), gate: "none", stop: "cancel-q"})
		// a tick beyond 32 bits, ended by the limit (which discards what is pending in one step)
		addDelay(1, cfg{kind: "trigger", workers: 2, ticks: q(1<<32 + 3), gate: "none", stop: "limit", limit: 5})
	case "C03":
		addDelay(1, cfg{kind: "trigger", workers: 2, ticks: q(1<<32 + 3), gate: "none", stop: "limit", limit: 5})
		plain(1, true, cfg{kind: "trigger", workers: 2, limit: 2, ticks: q(3), gate: "none", stop: "limit"})
		plain(1, true, cfg{kind: "continuous", workers: 2, limit: 2, gate: "none"})
		// one worker: b=2 (thorough 3); two workers: b=1 (thorough 2); three
		// workers: delay-bounded d=2 (thorough 3) — with five threads the free
		// switches at blocking points alone do not complete.
		for _, wk := range []int{1, 2, 3} {
			adder := func(c cfg) {
				switch wk {
				case 1:
					add(map[bool]int{true: 2, false: 3}[quick], c)
				case 2:
					add(map[bool]int{true: 1, false: 2}[quick], c)
				default:
					addDelay(map[bool]int{true: 2, false: 3}[quick], c)
				}
			}
			for _, n := range []uint64{1, 2, 3} {
				if quick && n == 3 {
					continue
				}
				adder(cfg{kind: "trigger", workers: wk, limit: n, ticks: q(int(n) + 2), gate: "none", stop: "limit"})
				adder(cfg{kind: "trigger", workers: wk, limit: n, ticks: q(int(n)), gate: "none", stop: "limit"})
				adder(cfg{kind: "continuous", workers: wk, limit: n, gate: "none"})
			}
			adder(cfg{kind: "trigger", workers: wk, limit: 4, ticks: q(3, 3), gate: "none", stop: "limit"})
			adder(cfg{kind: "trigger", workers: wk, limit: 3, ticks: q(2), gate: "none", stop: "limit"})
			adder(cfg{kind: "trigger", workers: wk, limit: 0, ticks: q(2, 1), gate: "none", stop: "cancel-q"})
		}
		addDelay(2, cfg{kind: "trigger", workers: 2, limit: 2, ticks: q(3), gate: "none", stop: "limit"})
		addDelay(2, cfg{kind: "continuous", workers: 2, limit: 2, gate: "none"})
		add(1, cfg{kind: "stages", workers: 1, limit: 3, bodyDur: time.Millisecond})
		addDelay(1, cfg{kind: "stages", workers: 2, limit: 3, bodyDur: time.Millisecond})
		if !quick {
			add(2, cfg{kind: "stages", workers: 1, limit: 1, bodyDur: time.Millisecond})
			add(1, cfg{kind: "stages", workers: 2, limit: 4, bodyDur: time.Millisecond})
			addDelay(3, cfg{kind: "stages", workers: 2, limit: 5, bodyDur: time.Millisecond})
			add(1000, cfg{kind: "continuous", workers: 1, limit: 2, gate: "none"})
			add(1000, cfg{kind: "trigger", workers: 1, limit: 2, ticks: q(3), gate: "none", stop: "limit"})
			add(3, cfg{kind: "continuous", workers: 2, limit: 2, gate: "none"})
		}
	case "C04":
		// a slow first iteration: the other workers take everything that is left, up to the limit
		addDelay(2, cfg{kind: "continuous", workers: 2, limit: 6, gate: "first-waits-for-last"})
		addDelay(1, cfg{kind: "continuous", workers: 2, limit: 5, gate: "cleanup-fails-then-barrier"})
		addDelay(1, cfg{kind: "trigger", workers: 2, limit: 5, ticks: q(1, 4), gate: "cleanup-fails-then-barrier", stop: "limit"})
		addDelay(1, cfg{kind: "continuous", workers: 3, limit: 12, gate: "first-waits-for-last"})
		addDelay(1, cfg{kind: "trigger", workers: 2, limit: 5, ticks: q(7), gate: "first-waits-for-last", stop: "limit"})
		plain(1, true, cfg{kind: "trigger", workers: 2, ticks: q(2), gate: "barrier", stop: "cancel-q"})
		plain(1, true, cfg{kind: "continuous", workers: 2, gate: "yield", bodyDur: time.Millisecond, runFor: 2 * time.Millisecond})
		for _, wk := range []int{1, 2, 3} {
			adder := func(c cfg) {
				switch wk {
				case 1:
					add(map[bool]int{true: 2, false: 3}[quick], c)
				case 2:
					add(map[bool]int{true: 1, false: 2}[quick], c)
				default:
					addDelay(map[bool]int{true: 2, false: 3}[quick], c)
				}
			}
			adder(cfg{kind: "trigger", workers: wk, ticks: q(wk+1, 2*wk), gate: "yield", stop: "cancel-q"})
			adder(cfg{kind: "trigger", workers: wk, ticks: q(wk), gate: "barrier", stop: "cancel-q"})
			adder(cfg{kind: "trigger", workers: wk, ticks: im(wk, wk+1), gate: "yield", stop: "cancel-now"})
			adder(cfg{kind: "continuous", workers: wk, gate: "barrier", bodyDur: time.Millisecond})
			adder(cfg{kind: "continuous", workers: wk, gate: "yield", bodyDur: time.Millisecond, runFor: 2 * time.Millisecond})
		}
		addDelay(2, cfg{kind: "trigger", workers: 2, ticks: q(2, 3), gate: "barrier", stop: "cancel-q"})
		// a tick of one job for two / three idle workers (and a tick of none), then a tick that needs them all
		addDelay(2, cfg{kind: "trigger", workers: 2, ticks: q(1, 2), gate: "first-passes-then-barrier", stop: "cancel-q"})
		addDelay(1, cfg{kind: "trigger", workers: 3, ticks: q(1, 0, 3), gate: "first-passes-then-barrier", stop: "cancel-q"})
		// a negative tick first: the next tick's requests must still reach all the workers
		addDelay(1, cfg{kind: "trigger", workers: 2, ticks: q(-1, 2), gate: "barrier", stop: "cancel-q"})
		// tick sizes at the 32-bit boundaries (the limit ends the run: what is pending then is discarded in one step)
		addDelay(1, cfg{kind: "trigger", workers: 2, limit: 3, ticks: q(1 << 31), gate: "barrier", stop: "limit"})
		addDelay(1, cfg{kind: "trigger", workers: 3, limit: 4, ticks: q(1<<32 + 1), gate: "barrier", stop: "limit"})
		// users mode with fewer iterations allowed than users: whoever wins the ids, no two running iterations may share a handle
		addDelay(2, cfg{kind: "continuous", workers: 3, limit: 2, gate: "yield", bodyDur: time.Millisecond})
		add(1, cfg{kind: "continuous", workers: 2, limit: 1, gate: "yield", bodyDur: time.Millisecond})
		if !quick {
			add(1000, cfg{kind: "trigger", workers: 1, ticks: q(2), gate: "yield", stop: "cancel-q"})
			add(3, cfg{kind: "trigger", workers: 2, ticks: q(2), gate: "barrier", stop: "cancel-q"})
			addDelay(3, cfg{kind: "trigger", workers: 3, ticks: q(3, 3), gate: "barrier", stop: "cancel-q"})
		}
	}
	return out
}

func main() { vrt.Main(*prop, scenariosFor) }
