// Harness for C06 and C07, concurrent part (E1): several workers run iterations
// of one scenario at the same time. Whatever the others do - fail, stop, panic -
// each iteration's cleanups run exactly once, in reverse order, after its own
// body and before the same worker's next body (C06), and each iteration is
// reported by its own outcome, later ones on the same worker starting clean
// (C07). The bodies and cleanups contain scheduling points, so the scheduler
// interleaves the iterations inside bodies and cleanups; selected with -prop.
package main

import (
	"errors"
	"flag"
	"fmt"
	"strings"
	"time"

	"github.com/prometheus/client_golang/prometheus"

	"github.com/form3tech-oss/f1/v2/internal/metrics"
	"github.com/form3tech-oss/f1/v2/internal/progress"
	"github.com/form3tech-oss/f1/v2/internal/verifharness/hlib"
	"github.com/form3tech-oss/f1/v2/internal/verifshim/vatomic"
	"github.com/form3tech-oss/f1/v2/internal/verifshim/vctx"
	"github.com/form3tech-oss/f1/v2/internal/verifshim/vrt"
	"github.com/form3tech-oss/f1/v2/internal/verifshim/vsync"
	"github.com/form3tech-oss/f1/v2/internal/verifshim/vtime"
	"github.com/form3tech-oss/f1/v2/internal/workers"
	"github.com/form3tech-oss/f1/v2/pkg/f1/scenarios"
	f1testing "github.com/form3tech-oss/f1/v2/pkg/f1/testing"
)

var prop = flag.String("prop", "C06", "C06|C07")

// one letter per iteration: p pass, f Fail, n FailNow, s panic(string), e panic(error), c a cleanup panics,
// g the body's helper goroutine panics under the exported CheckResults(t, done) and the body waits for done
type cfg struct{ scripts []string }

type world struct {
	ev    []string // ordered event log: "begin w.i", "end w.i", "cleanupA w.i", "cleanupB w.i"
	stats *progress.Stats
	dirty map[string]bool // iteration began with a handle that was already failed
}

var w *world

func fails(b byte) bool { return b != 'p' }

func scenario(c cfg) vrt.Scenario {
	name := fmt.Sprintf("%s/concurrent-iterations/scripts=%s", *prop, strings.Join(c.scripts, ","))
	body := func() {
		x := &world{stats: &progress.Stats{}, dirty: map[string]bool{}}
		w = x
		vatomic.QuietAll(x.stats)
		m := metrics.NewInstance(prometheus.NewRegistry(), false, nil)
		sc := &scenarios.Scenario{Name: "s", RunFn: func(t *f1testing.T) {
			id := t.Iteration
			if t.Failed() {
				x.dirty[id] = true
			}
			x.ev = append(x.ev, "begin "+id)
			var wi, ii int
			fmt.Sscanf(id, "%d.%d", &wi, &ii)
			kind := c.scripts[wi][ii]
			t.Cleanup(func() {
				vrt.Yield()
				x.ev = append(x.ev, "cleanupA "+id)
			})
			t.Cleanup(func() {
				x.ev = append(x.ev, "cleanupB "+id)
				vrt.Yield()
				if kind == 'c' {
					panic("cleanup panics")
				}
			})
			vrt.Yield() // other workers' iterations may run here
			x.ev = append(x.ev, "end "+id)
			switch kind {
			case 'f':
				t.Fail()
			case 'n':
				t.FailNow()
			case 's':
				panic("body panics")
			case 'e':
				panic(errors.New("body panics"))
			case 'g':
				done := make(chan struct{})
				vrt.GoNamed("helper", func() {
					defer f1testing.CheckResults(t, done)
					panic("helper goroutine panics")
				})
				vrt.Recv(done)
			}
		}}
		as := workers.NewActiveScenario(sc, m, x.stats, hlib.DiscardLogger(), hlib.DiscardLogrus())
		var wg vsync.WaitGroup
		wg.Add(len(c.scripts))
		for wi, script := range c.scripts {
			wi, script := wi, script
			vrt.GoNamed(fmt.Sprintf("worker%d", wi), func() {
				defer wg.Done()
				st := as.VerifNewIterationState()
				for i := range script {
					st.VerifT().Reset(fmt.Sprintf("%d.%d", wi, i))
					as.Run(st)
				}
			})
		}
		wg.Wait()
	}
	post := func(o *vrt.Outcome) {
		switch o.Status {
		case vrt.StDeadlock, vrt.StHorizon:
			o.Fail(*prop+"/concurrent-no-return", "blocked", o.Detail)
			return
		case vrt.StCrash:
			o.Fail(*prop+"/escapes", "concurrent", "a failure of one iteration took the process down: "+o.Crash)
			return
		}
		pos := map[string][]int{}
		for i, e := range w.ev {
			pos[e] = append(pos[e], i)
		}
		var wantF, wantS uint64
		for wi, script := range c.scripts {
			for i := range script {
				id := fmt.Sprintf("%d.%d", wi, i)
				if fails(script[i]) && script[i] != 'c' {
					wantF++
				} else {
					wantS++ // a panicking cleanup fails the teardown, not the iteration
				}
				if *prop == "C06" {
					a, b, end, begin := pos["cleanupA "+id], pos["cleanupB "+id], pos["end "+id], pos["begin "+id]
					switch {
					case len(begin) != 1 || len(end) != 1:
						o.Fail("C06/harness", "body", fmt.Sprintf("iteration %s began %d times, ended %d times", id, len(begin), len(end)))
					case len(a) != 1 || len(b) != 1:
						o.Fail("C06/cleanup-exactly-once", fmt.Sprintf("concurrent/ran-%d-and-%d-times", min(len(a), 2), min(len(b), 2)), fmt.Sprintf("iteration %s: its first-registered cleanup ran %d times, its second %d times while other workers were running (events %v)", id, len(a), len(b), w.ev))
					case b[0] < end[0] || a[0] < b[0]:
						o.Fail("C06/cleanup-order", "concurrent", fmt.Sprintf("iteration %s: body end at %d, second-registered cleanup at %d, first-registered at %d (events %v)", id, end[0], b[0], a[0], w.ev))
					default:
						if nx := pos[fmt.Sprintf("begin %d.%d", wi, i+1)]; len(nx) == 1 && nx[0] < a[0] {
							o.Fail("C06/cleanup-before-next", "concurrent", fmt.Sprintf("worker %d began its next iteration before iteration %s's cleanups had run (events %v)", wi, id, w.ev))
						}
					}
				}
				if *prop == "C07" && w.dirty[id] {
					o.Fail("C07/clean-start", "concurrent", fmt.Sprintf("iteration %s started on a handle already marked failed", id))
				}
			}
		}
		if *prop == "C07" {
			tot := w.stats.Total()
			if tot.FailedIterationDurations.Count != wantF || tot.SuccessfulIterationDurations.Count != wantS {
				kind := "failure-reported-as-success"
				if tot.FailedIterationDurations.Count > wantF {
					kind = "success-reported-as-failure"
				}
				o.Fail("C07/classification", kind+"/concurrent", fmt.Sprintf("%d successful and %d failed reported, the iterations' own outcomes are %d and %d", tot.SuccessfulIterationDurations.Count, tot.FailedIterationDurations.Count, wantS, wantF))
			}
		}
		o.Sig = fmt.Sprintf("events=%d", len(w.ev))
	}
	return vrt.Scenario{Name: name, Body: body, Post: post, Memo: true, Horizon: time.Minute}
}

// lateHelper (C07): through the real trigger pool. Iteration 1 leaves a helper goroutine
// behind that marks the handle failed 50 ms after the iteration returned, while the
// worker is idle; iteration 2 on the same worker, triggered at 100 ms, passes. It must
// start on a clean handle and be reported successful.
func lateHelper(mode string) vrt.Scenario {
	body := func() {
		x := &world{stats: &progress.Stats{}, dirty: map[string]bool{}}
		w = x
		vatomic.QuietAll(x.stats)
		m := metrics.NewInstance(prometheus.NewRegistry(), false, nil)
		n := 0
		sc := &scenarios.Scenario{Name: "s", RunFn: func(t *f1testing.T) {
			n++
			id := fmt.Sprint(n)
			if t.Failed() {
				x.dirty[id] = true
			}
			if n == 1 {
				vrt.GoNamed("late-helper", func() {
					vtime.Sleep(50 * time.Millisecond)
					t.Fail()
				})
			}
		}}
		as := workers.NewActiveScenario(sc, m, x.stats, hlib.DiscardLogger(), hlib.DiscardLogrus())
		mgr := workers.New(0, as)
		ctx, cancel := vctx.WithCancel(vctx.Background())
		defer cancel()
		if mode == "users" {
			// users mode: the worker runs iterations back to back; the second one is made to start after the helper
			sc.RunFn = func(t *f1testing.T) {
				n++
				id := fmt.Sprint(n)
				if t.Failed() {
					x.dirty[id] = true
				}
				if n == 1 {
					vrt.GoNamed("late-helper", func() {
						vtime.Sleep(50 * time.Millisecond)
						t.Fail()
					})
					return
				}
				vtime.Sleep(100 * time.Millisecond)
			}
		}
		pool := mgr.NewTriggerPool(1)
		wctx := pool.Start(ctx)
		done := hlib.StopWhenDone(wctx, pool)
		pool.Trigger(wctx, 1)
		vtime.Sleep(100 * time.Millisecond)
		pool.Trigger(wctx, 1)
		vtime.Sleep(10 * time.Millisecond)
		cancel()
		done()
		vrt.Recv(mgr.WaitForCompletion())
	}
	post := func(o *vrt.Outcome) {
		if o.Status != vrt.StOK {
			o.Fail("C07/worker-lost", "late-helper", o.Status.String()+": "+o.Detail+o.Crash)
			return
		}
		if o.Cost != 0 {
			return // (with timers firing early the helper's mark may land inside iteration 2, which then is rightly reported failed)
		}
		tot := w.stats.Total()
		if w.dirty["2"] {
			o.Fail("C07/clean-start", "late-helper", "iteration 2 started on a handle that a goroutine left behind by iteration 1 had marked failed while the worker was idle")
		}
		if tot.SuccessfulIterationDurations.Count+tot.FailedIterationDurations.Count != 2 || tot.FailedIterationDurations.Count > 0 && w.dirty["2"] {
			o.Fail("C07/classification", "success-reported-as-failure/late-helper", fmt.Sprintf("%d successful and %d failed reported; both bodies passed (iteration 1's helper marked the handle only after it had been reported)", tot.SuccessfulIterationDurations.Count, tot.FailedIterationDurations.Count))
		}
	}
	return vrt.Scenario{Name: "C07/trigger-pool/late-helper-between-iterations", Body: body, Post: post, Memo: true, Horizon: time.Minute}
}

func scenariosFor(tier string) []vrt.Scenario {
	var out []vrt.Scenario
	if *prop == "C07" {
		s := lateHelper("trigger")
		s.Bound = 1
		out = append(out, s)
	}
	add := func(b int, scripts ...string) {
		s := scenario(cfg{scripts})
		s.Bound = b
		out = append(out, s)
	}
	b := 2
	if tier != "quick" {
		b = 3
	}
	add(b+1, "p", "n")
	add(b, "np", "sp")
	add(b, "fp", "ep")
	add(b, "cp", "pn")
	add(b, "pp", "pp")
	add(b, "gp", "p")
	add(b, "gp", "gp")
	out = append(out, scenario(cfg{[]string{"np", "ps"}}).WithPlainPoints(1))
	if tier != "quick" {
		add(2, "nsp", "epf")
		add(1, "n", "s", "p")
		add(2, "cpn", "fcp")
		add(3, "gpg")
		add(2, "gpn", "pgp")
		out = append(out, scenario(cfg{[]string{"nf", "cs"}}).WithPlainPoints(2))
	}
	return out
}

func main() { vrt.Main(*prop, scenariosFor) }
