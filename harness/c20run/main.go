// Harness for C20, concurrent part (E1): iterations of one combined scenario
// running on several workers at the same time. Each iteration still invokes every
// component's iteration function, in order, with its own handle - whatever the
// other iterations are doing. The components contain a scheduling point, so the
// scheduler interleaves the iterations between (and inside) components.
package main

import (
	"fmt"
	"strings"
	"time"

	"github.com/prometheus/client_golang/prometheus"

	"github.com/form3tech-oss/f1/v2/internal/metrics"
	"github.com/form3tech-oss/f1/v2/internal/progress"
	"github.com/form3tech-oss/f1/v2/internal/verifharness/hlib"
	"github.com/form3tech-oss/f1/v2/internal/verifshim/vatomic"
	"github.com/form3tech-oss/f1/v2/internal/verifshim/vrt"
	"github.com/form3tech-oss/f1/v2/internal/verifshim/vsync"
	"github.com/form3tech-oss/f1/v2/internal/workers"
	"github.com/form3tech-oss/f1/v2/pkg/f1"
	"github.com/form3tech-oss/f1/v2/pkg/f1/scenarios"
	f1testing "github.com/form3tech-oss/f1/v2/pkg/f1/testing"
)

type cfg struct {
	comps   int
	workers int
	iters   int    // iterations per worker
	stopAt  string // "w.i.c": that worker's iteration stops (FailNow) in component c ("" none)
}

type world struct {
	calls  map[string][]string // iteration id -> components invoked, in order
	handle map[string]bool     // iteration id -> every component got that iteration's handle
	failed map[string]bool
	stats  *progress.Stats
}

var w *world

func scenario(c cfg) vrt.Scenario {
	name := fmt.Sprintf("combined/components=%d/workers=%d/iterations-each=%d/stop=%s", c.comps, c.workers, c.iters, c.stopAt)
	body := func() {
		x := &world{calls: map[string][]string{}, handle: map[string]bool{}, failed: map[string]bool{}, stats: &progress.Stats{}}
		w = x
		vatomic.QuietAll(x.stats)
		var fns []f1testing.ScenarioFn
		for ci := 0; ci < c.comps; ci++ {
			ci := ci
			fns = append(fns, func(*f1testing.T) f1testing.RunFn {
				return func(t *f1testing.T) {
					id := t.Iteration
					x.calls[id] = append(x.calls[id], fmt.Sprint(ci))
					vrt.Yield() // another worker's iteration may run here
					if t.Iteration != id {
						x.handle[id] = false
					}
					if c.stopAt == fmt.Sprintf("%s.%d", id, ci) {
						t.FailNow()
					}
				}
			})
		}
		m := metrics.NewInstance(prometheus.NewRegistry(), false, nil)
		sc := &scenarios.Scenario{Name: "s", ScenarioFn: f1.CombineScenarios(fns...)}
		as := workers.NewActiveScenario(sc, m, x.stats, hlib.DiscardLogger(), hlib.DiscardLogrus())
		as.Setup()
		var wg vsync.WaitGroup
		wg.Add(c.workers)
		for wi := 0; wi < c.workers; wi++ {
			wi := wi
			vrt.GoNamed(fmt.Sprintf("worker%d", wi), func() {
				defer wg.Done()
				st := as.VerifNewIterationState()
				for i := 0; i < c.iters; i++ {
					id := fmt.Sprintf("%d.%d", wi, i)
					x.handle[id] = true
					st.VerifT().Reset(id)
					before := x.stats.Total().FailedIterationDurations.Count
					as.Run(st)
					_ = before
				}
			})
		}
		wg.Wait()
	}
	post := func(o *vrt.Outcome) {
		switch o.Status {
		case vrt.StDeadlock, vrt.StHorizon:
			o.Fail("C20/concurrent-no-return", "blocked", o.Detail)
			return
		case vrt.StCrash:
			o.Fail("C20/escapes", "panic", o.Crash)
			return
		}
		wantFailed := uint64(0)
		for wi := 0; wi < c.workers; wi++ {
			for i := 0; i < c.iters; i++ {
				id := fmt.Sprintf("%d.%d", wi, i)
				var want []string
				for ci := 0; ci < c.comps; ci++ {
					want = append(want, fmt.Sprint(ci))
					if c.stopAt == fmt.Sprintf("%s.%d", id, ci) {
						wantFailed++
						break
					}
				}
				if got := strings.Join(w.calls[id], " "); got != strings.Join(want, " ") {
					kind := "missing-calls"
					if len(w.calls[id]) > len(want) {
						kind = "extra-calls"
					} else if len(w.calls[id]) == len(want) {
						kind = "wrong-order"
					}
					o.Fail("C20/order", "concurrent-iterations:"+kind, fmt.Sprintf("iteration %s invoked components [%s], expected [%s] (other iterations were running at the same time)", id, got, strings.Join(want, " ")))
				}
				if !w.handle[id] {
					o.Fail("C20/order", "concurrent-iterations:handle", fmt.Sprintf("iteration %s: a component saw another iteration's handle", id))
				}
			}
		}
		tot := w.stats.Total()
		if tot.FailedIterationDurations.Count != wantFailed || tot.SuccessfulIterationDurations.Count != uint64(c.workers*c.iters)-wantFailed {
			o.Fail("C20/iteration-verdict", "concurrent-iterations", fmt.Sprintf("%d successful and %d failed iterations reported, expected %d failed of %d", tot.SuccessfulIterationDurations.Count, tot.FailedIterationDurations.Count, wantFailed, c.workers*c.iters))
		}
		o.Sig = fmt.Sprintf("s=%d f=%d", tot.SuccessfulIterationDurations.Count, tot.FailedIterationDurations.Count)
	}
	return vrt.Scenario{Name: name, Body: body, Post: post, Memo: true, Horizon: time.Minute}
}

func scenariosFor(tier string) []vrt.Scenario {
	var out []vrt.Scenario
	add := func(b int, c cfg) {
		s := scenario(c)
		s.Bound = b
		out = append(out, s)
	}
	b := 2
	if tier != "quick" {
		b = 3
	}
	add(b, cfg{comps: 3, workers: 2, iters: 1})
	add(b, cfg{comps: 2, workers: 2, iters: 2})
	add(b, cfg{comps: 3, workers: 2, iters: 1, stopAt: "0.0.1"})
	add(b-1, cfg{comps: 3, workers: 3, iters: 1, stopAt: "1.0.0"})
	out = append(out, scenario(cfg{comps: 3, workers: 2, iters: 1}).WithPlainPoints(1))
	if tier != "quick" {
		add(2, cfg{comps: 4, workers: 2, iters: 2, stopAt: "1.1.2"})
		out = append(out, scenario(cfg{comps: 2, workers: 2, iters: 2, stopAt: "0.1.0"}).WithPlainPoints(2))
	}
	return out
}

func main() { vrt.Main("C20", scenariosFor) }
