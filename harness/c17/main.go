// Harness for C17: iteration durations are measured around the body
// (measurement part: whole runs in virtual time on the default schedule) and
// aggregated exactly (aggregation part: every operation sequence up to a depth
// against a list model).
package main

import (
	"fmt"
	"github.com/prometheus/client_golang/prometheus"
	"strings"
	"time"

	"github.com/form3tech-oss/f1/v2/internal/metrics"
	"github.com/form3tech-oss/f1/v2/internal/options"
	"github.com/form3tech-oss/f1/v2/internal/progress"
	"github.com/form3tech-oss/f1/v2/internal/verifharness/hlib"
	"github.com/form3tech-oss/f1/v2/internal/verifshim/vctx"
	"github.com/form3tech-oss/f1/v2/internal/verifshim/vrt"
	"github.com/form3tech-oss/f1/v2/internal/verifshim/vtime"
	f1testing "github.com/form3tech-oss/f1/v2/pkg/f1/testing"
)

// ---- aggregation (sequential E2) ----

type op struct {
	kind string // s f snap total
	d    int64
}

var (
	opSmall = []op{{"s", 1}, {"s", 2}, {"s", 5}, {"f", 1}, {"f", 2}, {"f", 5}, {"snap", 0}, {"total", 0}}
	// durations whose sums pass 2^53 ns (about 104 days of accumulated iteration time), where
	// float64 no longer holds every integer; five of the largest still fit int64
	opLarge = []op{{"s", 1}, {"s", 1<<53 + 1}, {"s", 1 << 60}, {"f", 3}, {"f", 1<<53 + 2}, {"snap", 0}, {"total", 0}}
)

type model struct {
	life   map[string][]int64
	period []int64 // successful durations since the last collect point
}

func stat(l []int64) (count uint64, mean, min, max int64) {
	if len(l) == 0 {
		return
	}
	var sum int64
	min, max = l[0], l[0]
	for _, d := range l {
		sum += d
		if d < min {
			min = d
		}
		if d > max {
			max = d
		}
	}
	return uint64(len(l)), sum / int64(len(l)), min, max
}

func cmpSnap(r *hlib.Rec, what string, got progress.IterationDurationsSnapshot, l []int64, input string) {
	c, mean, mn, mx := stat(l)
	if got.Count != c {
		r.Fail("C17/aggregation-"+what, "count", fmt.Sprintf("count %d, recorded %d", got.Count, c), input)
		return
	}
	if int64(got.Average) != mean || int64(got.Min) != mn || int64(got.Max) != mx {
		r.Fail("C17/aggregation-"+what, "mean-min-max", fmt.Sprintf("avg/min/max %d/%d/%d, recorded durations %v give %d/%d/%d", got.Average, got.Min, got.Max, l, mean, mn, mx), input)
	}
	if c > 0 && !(got.Min <= got.Average && got.Average <= got.Max) {
		r.Fail("C17/aggregation-"+what, "order", fmt.Sprintf("min %d <= mean %d <= max %d does not hold", got.Min, got.Average, got.Max), input)
	}
}

func aggregationSuite(depth int) hlib.Suite { return aggregationOver("", opSmall, depth, 3) }

func aggregationLarge(depth int) hlib.Suite {
	return aggregationOver("/durations-beyond-2^53ns", opLarge, depth, 1)
}

func aggregationOver(tag string, opAlpha []op, depth, weight int) hlib.Suite {
	return hlib.Suite{Name: fmt.Sprintf("aggregation%s/all-operation-sequences<=%d", tag, depth), Weight: weight, Run: func(r *hlib.Rec) {
		seq := make([]int, 0, depth)
		var rec func()
		run := func() {
			r.Eval()
			st := &progress.Stats{}
			m := model{life: map[string][]int64{}}
			var names []string
			for _, i := range seq {
				names = append(names, fmt.Sprintf("%s%d", opAlpha[i].kind, opAlpha[i].d))
			}
			input := strings.Join(names, " ")
			r.SampleCase(input)
			lastS, lastF := uint64(0), uint64(0)
			nsnap := 0
			for _, i := range seq {
				o := opAlpha[i]
				r.Step()
				switch o.kind {
				case "s":
					st.Record(metrics.SuccessResult, o.d)
					m.life["s"] = append(m.life["s"], o.d)
					m.period = append(m.period, o.d)
				case "f":
					st.Record(metrics.FailedResult, o.d)
					m.life["f"] = append(m.life["f"], o.d)
				case "snap", "total":
					var sn progress.Snapshot
					if o.kind == "snap" {
						// the period is the caller's label for the interval, whatever its value: 1 s, 0 and -1 s in turn
						sn = st.Snapshot([]time.Duration{time.Second, 0, -time.Second}[nsnap%3])
						nsnap++
						cmpSnap(r, "period", sn.SuccessfulIterationDurationsForPeriod, m.period, input)
					} else {
						sn = st.Total()
					}
					m.period = nil
					cmpSnap(r, "lifetime-success", sn.SuccessfulIterationDurations, m.life["s"], input)
					cmpSnap(r, "lifetime-fail", sn.FailedIterationDurations, m.life["f"], input)
					if sn.SuccessfulIterationDurations.Count < lastS || sn.FailedIterationDurations.Count < lastF {
						r.Fail("C17/aggregation-monotone", "count-decreased", "a lifetime count decreased", input)
					}
					lastS, lastF = sn.SuccessfulIterationDurations.Count, sn.FailedIterationDurations.Count
				}
			}
			if len(seq) <= 3 {
				r.Distinct(input)
			}
		}
		rec = func() {
			if len(seq) > 0 {
				last := opAlpha[seq[len(seq)-1]].kind
				if last == "snap" || last == "total" { // only sequences ending in an observation say something new
					run()
				}
			}
			if len(seq) == depth || r.Expired() {
				return
			}
			for i := range opAlpha {
				if len(seq) == 0 && !r.Mine() {
					continue
				}
				seq = append(seq, i)
				rec()
				seq = seq[:len(seq)-1]
			}
		}
		rec()
		r.Sample(map[string]any{"ops": fmt.Sprintf("Snapshot, Total and Record over %v", opAlpha[:len(opAlpha)-2]), "depth": depth})
	}}
}

// ---- measurement (whole runs on the default schedule) ----

// how the body ends: the measured interval is the same for all of them
var endings = []string{"return", "Fail", "FailNow", "Require-assertion", "panic"}

func end(t *f1testing.T, ending string) {
	switch ending {
	case "Fail":
		t.Fail()
	case "FailNow":
		t.FailNow()
	case "Require-assertion":
		t.Require().True(false)
	case "panic":
		panic("body panics")
	}
}

func measurementSuite() hlib.Suite {
	return hlib.Suite{Name: "measurement/body-cleanup-queue-durations", Run: func(r *hlib.Rec) {
		for _, mode := range []string{"constant", "users"} {
			for _, body := range []time.Duration{time.Millisecond, 5 * time.Millisecond} {
				for _, cleanup := range []time.Duration{0, 3 * time.Millisecond} {
					for _, queued := range []bool{false, true} {
						for _, ending := range endings {
							for _, conc := range []int{1, 3} {
								fails := ending != "return"
								if mode == "users" && queued {
									continue
								}
								r.Eval()
								input := fmt.Sprintf("mode=%s body=%s (x1, x2, x3 by iteration) cleanup=%s queued-behind-busy-worker=%v body-ends-with=%s concurrency=%d", mode, body, cleanup, queued, ending, conc)
								r.SampleCase(input)
								rs := &hlib.RunSpec{Mode: mode, Quiet: true, CompletionTimeout: time.Second,
									Opts: options.RunOptions{MaxDuration: 10 * time.Second, Concurrency: conc, MaxIterations: 3, IgnoreDropped: true}}
								var ownTime float64 // what the bodies took by their own clock
								if mode == "constant" {
									rs.Flags = map[string]string{"rate": "1/100ms", "distribution": "none"}
									if queued {
										// three requests at once for one worker: the second and third wait 1x and 2x the body+cleanup
										rs.Flags["rate"] = "3/100ms"
									}
								}
								rs.ScenarioFn = func(t *f1testing.T) f1testing.RunFn {
									return func(t *f1testing.T) {
										if cleanup > 0 {
											t.Cleanup(func() { vtime.Sleep(cleanup) })
										}
										// iterations of different lengths: with several workers they overlap and finish out of order
										var n int
										fmt.Sscan(t.Iteration, &n)
										d := body * time.Duration(1+(n+2)%3)
										ownTime += float64(d)
										vtime.Sleep(d)
										end(t, ending)
									}
								}
								// two runs on one metrics instance (the process-wide one is reused by every run of a process):
								// the second run's figures are checked
								reg := prometheus.NewRegistry()
								rs.Metrics = metrics.NewInstance(reg, true, nil)
								res := hlib.RunOnce(rs, -1, 0, 60*time.Second)
								if res.BuildErr == nil && res.Out.Status == vrt.StOK {
									ownTime = 0
									res = hlib.RunOnce(rs, -1, 0, 60*time.Second)
								}
								if res.BuildErr != nil {
									panic(res.BuildErr)
								}
								if res.Out.Status != vrt.StOK {
									r.Fail("C17/run-broken", mode, res.Out.Status.String()+res.Out.Crash, input)
									continue
								}
								res.Reg = reg
								label := "success"
								if fails {
									label = "fail"
								}
								var cnt uint64
								var sum float64
								mfs, _ := res.Reg.Gather()
								for _, mf := range mfs {
									if mf.GetName() != "form3_loadtest_iteration" {
										continue
									}
									for _, m := range mf.GetMetric() {
										ok := false
										for _, l := range m.GetLabel() {
											if l.GetName() == "result" && l.GetValue() == label {
												ok = true
											}
										}
										if ok {
											cnt += m.GetSummary().GetSampleCount()
											sum += m.GetSummary().GetSampleSum()
										}
									}
								}
								if cnt != 3 {
									r.Fail("C17/measurement", "count", fmt.Sprintf("%d samples labelled %s, want 3", cnt, label), input)
									continue
								}
								// default schedule, nothing slow: exactly the body's own duration
								if want := ownTime; sum != want {
									kind := "shorter-than-body"
									if sum > want {
										kind = "includes-more-than-body"
										if sum >= want+3*float64(cleanup) && cleanup > 0 {
											kind = "includes-cleanup"
										}
									}
									r.Fail("C17/measurement", kind, fmt.Sprintf("exported durations sum to %.0f ns, the three bodies took %.0f ns by their own clock", sum, ownTime), input)
								}
								r.Distinct(input)
							}
						}
					}
				}
			}
		}
		r.Sample("body in {1ms,5ms} x cleanup {0,3ms} x queued behind a busy worker x outcome, constant and users mode; exported summary sum vs the body's own clock")
	}}
}

// progressMeasurement: the same through progress statistics (min = max = mean = body).
func progressSuite() hlib.Suite {
	return hlib.Suite{Name: "measurement/progress-statistics", Run: func(r *hlib.Rec) {
		for _, body := range []time.Duration{time.Millisecond, 5 * time.Millisecond} {
			for _, cleanup := range []time.Duration{0, 3 * time.Millisecond} {
				for i, rate := range []string{"1/100ms", "3/100ms", "1/100ms", "3/100ms", "1/100ms", "3/100ms", "1/100ms", "3/100ms", "1/100ms", "3/100ms"} {
					ending := endings[i/2]
					r.Eval()
					input := fmt.Sprintf("body=%s cleanup=%s rate=%s body-ends-with=%s", body, cleanup, rate, ending)
					r.SampleCase(input)
					var snap progress.Snapshot
					out := vrt.RunDefault(func() {
						rs := &hlib.RunSpec{Mode: "constant", Quiet: true, CompletionTimeout: time.Second, Flags: map[string]string{"rate": rate, "distribution": "none"},
							Opts: options.RunOptions{MaxDuration: 10 * time.Second, Concurrency: 1, MaxIterations: 3, IgnoreDropped: true}}
						rs.ScenarioFn = func(t *f1testing.T) f1testing.RunFn {
							return func(t *f1testing.T) {
								if cleanup > 0 {
									t.Cleanup(func() { vtime.Sleep(cleanup) })
								}
								vtime.Sleep(body)
								end(t, ending)
							}
						}
						b, err := rs.Build()
						if err != nil {
							panic(err)
						}
						res, _ := b.Run.Do(nil2ctx())
						snap = res.Snapshot()
					}, 60*time.Second, 0)
					if out.Status != vrt.StOK {
						r.Fail("C17/run-broken", "progress", out.Status.String()+out.Crash, input)
						continue
					}
					s := snap.SuccessfulIterationDurations
					if ending != "return" {
						s = snap.FailedIterationDurations
					}
					if s.Count != 3 || s.Min != body || s.Max != body || s.Average != body {
						r.Fail("C17/measurement", "progress-statistics", fmt.Sprintf("count %d min %s mean %s max %s, every body took %s", s.Count, s.Min, s.Average, s.Max, body), input)
					}
					r.Distinct(input)
				}
			}
		}
		r.Sample("progress min/mean/max of three iterations equal the body duration")
	}}
}

func suites(tier string) []hlib.Suite {
	d := 7
	if tier != "quick" {
		d = 9
	}
	return []hlib.Suite{aggregationSuite(d), aggregationLarge(d - 2), measurementSuite(), progressSuite()}
}

func main() { hlib.EnumMain("C17", suites) }

func nil2ctx() vctx.Context { return vctx.Background() }
