// Harness for C09, whole-run part (E2 on the default virtual-time schedule):
// through the real run.NewRun(...).Do with the real trigger builders, each
// tick starts exactly the value the configured profile yields for that tick.
// The reference is a second, fresh instance of the same trigger whose rate
// function is evaluated exactly once per tick instant, in order: an extra,
// skipped or reordered evaluation in the run shifts the stateful profiles
// (distribution over sub-ticks, gaussian remainder, staged cursor) against it.
package main

import (
	"os"
	"fmt"
	"sort"
	"strings"
	"time"

	"github.com/form3tech-oss/f1/v2/internal/options"
	"github.com/form3tech-oss/f1/v2/internal/verifharness/hlib"
	"github.com/form3tech-oss/f1/v2/internal/verifshim/vrt"
	"github.com/form3tech-oss/f1/v2/internal/verifshim/vtime"
	f1testing "github.com/form3tech-oss/f1/v2/pkg/f1/testing"
)

type tcase struct {
	mode  string
	flags map[string]string
	tick  time.Duration // the interval the trigger ticks at (100 ms when a distribution spreads the rate)
}

func cases() []tcase {
	var out []tcase
	add := func(mode string, tick time.Duration, kv ...string) {
		f := map[string]string{"jitter": "0"}
		for i := 0; i < len(kv); i += 2 {
			f[kv[i]] = kv[i+1]
		}
		out = append(out, tcase{mode, f, tick})
	}
	ms := time.Millisecond
	for _, rate := range []string{"7/1s", "3/200ms", "2/300ms", "10/450ms", "1/70ms", "5/2500us"} {
		for _, dist := range []string{"none", "regular"} {
			unit, _ := time.ParseDuration(strings.SplitN(rate, "/", 2)[1])
			tick := unit
			if dist == "regular" && unit > 100*ms {
				tick = 100 * ms
			}
			add("constant", tick, "rate", rate, "distribution", dist)
		}
	}
	for _, st := range []string{"0s:0,1s:10,1s:0", "0s:5,500ms:5,0s:1,1s:9", "0s:3,2s:3"} {
		add("staged", 200*ms, "stages", st, "iterationFrequency", "200ms", "distribution", "none")
		add("staged", 100*ms, "stages", st, "iterationFrequency", "300ms", "distribution", "regular")
	}
	add("ramp", time.Second/4, "start-rate", "0/250ms", "end-rate", "8/250ms", "ramp-duration", "2s", "distribution", "none")
	add("ramp", 100*ms, "start-rate", "9/s", "end-rate", "1/s", "ramp-duration", "3s", "distribution", "regular")
	add("gaussian", 500*ms, "volume", "200", "repeat", "4s", "iteration-frequency", "500ms", "peak", "2s", "standard-deviation", "1s", "distribution", "none")
	add("gaussian", 100*ms, "volume", "90", "repeat", "3s", "iteration-frequency", "1s", "peak", "1s", "standard-deviation", "2s", "weights", "1,2", "distribution", "regular")
	return out
}

func flagString(f map[string]string) string {
	var ks []string
	for k := range f {
		ks = append(ks, k)
	}
	sort.Strings(ks)
	var p []string
	for _, k := range ks {
		p = append(p, "--"+k+" "+f[k])
	}
	return strings.Join(p, " ")
}

func suite() hlib.Suite {
	return hlib.Suite{Name: "whole-run/each-tick-starts-the-profile-value", Run: func(r *hlib.Rec) {
		for _, c := range cases() {
			for _, ticks := range []int{1, 2, 7, 23} {
				if !r.Mine() {
					continue
				}
				if r.Expired() {
					return
				}
				r.Eval()
				// the trigger's window is max-duration minus the 10 ms the run keeps free before the
				// end; it closes half a tick after the last tick, so no tick races the deadline
				maxDur := time.Duration(ticks-1)*c.tick + c.tick/2 + 10*time.Millisecond
				input := fmt.Sprintf("f1 run %s %s --max-duration %s --verbose, instant bodies, 64 workers", c.mode, flagString(c.flags), maxDur)
				r.SampleCase(input)
				var t0 int64 = -1
				begins := map[int64]int{}
				rs := &hlib.RunSpec{Mode: c.mode, Flags: c.flags, Quiet: true, CompletionTimeout: time.Second,
					Opts: options.RunOptions{MaxDuration: maxDur, Concurrency: 64}}
				rs.ScenarioFn = func(*f1testing.T) f1testing.RunFn {
					t0 = vrt.Clock()
					return func(*f1testing.T) { begins[vrt.Clock()]++ }
				}
				res := hlib.RunOnce(rs, -1, 0, 10*time.Minute)
				if res.BuildErr != nil {
					r.Fail("C09/harness", "build", res.BuildErr.Error(), input)
					continue
				}
				if res.Out.Status != vrt.StOK || t0 < 0 {
					r.Fail("C09/run-broken", c.mode, res.Out.Status.String()+": "+res.Out.Crash+res.Out.Detail, input)
					continue
				}
				// reference: a fresh trigger of the same configuration, its rate function
				// evaluated once per tick instant
				ref, _, err := (&hlib.RunSpec{Mode: c.mode, Flags: c.flags}).BuildTrigger()
				if err != nil || ref.DryRun == nil {
					r.Fail("C09/harness", "reference", fmt.Sprint(err), input)
					continue
				}
				// a trigger with a total duration of its own (staged, ramp) ends the window earlier
				window := maxDur - 10*time.Millisecond
				if ref.Duration > 0 && ref.Duration < maxDur {
					window = ref.Duration - 10*time.Millisecond
				}
				var want, got []int
				total := 0
				for k := 0; k < ticks && time.Duration(k)*c.tick < window; k++ {
					at := int64(time.Duration(k) * c.tick)
					v := ref.DryRun(vtime.Epoch.Add(time.Duration(t0 + at)))
					if v < 0 {
						v = 0
					}
					r.Step()
					want = append(want, v)
					got = append(got, begins[t0+at])
					total += begins[t0+at]
					delete(begins, t0+at)
				}
				if len(begins) > 0 {
					var off []string
					for at, n := range begins {
						off = append(off, fmt.Sprintf("%d at +%s", n, time.Duration(at-t0)))
					}
					sort.Strings(off)
					r.Fail("C09/whole-run-cadence", "iterations-started-off-the-tick-grid", fmt.Sprintf("iterations started at instants that are not ticks of %s from the start: %v", c.tick, off), input)
				}
				if fmt.Sprint(got) != fmt.Sprint(want) {
					r.Fail("C09/whole-run-tick-value", c.mode+"/"+c.flags["distribution"], fmt.Sprintf("iterations started per tick %v, the configured profile evaluated once per tick gives %v", got, want), input)
				}
				if int(res.Success) != total || res.Dropped != 0 {
					r.Fail("C09/harness", "counts", fmt.Sprintf("result reports %d successful %d dropped, bodies ran %d times", res.Success, res.Dropped, total), input)
				}
				r.Distinct(fmt.Sprintf("%s %s ticks=%d", c.mode, flagString(c.flags), ticks))
				if ticks == 7 && (c.mode != "constant" || c.flags["rate"] == "7/1s") {
					r.Sample(map[string]any{"run": input, "started_per_tick": got})
				}
			}
		}
	}}
}

const twoStagesYAML = `scenario: s
limits:
  max-duration: 5s
  concurrency: 64
  max-iterations: 0
  ignore-dropped: true
stages:
- duration: 300ms
  mode: constant
  rate: 2/100ms
  jitter: 0
  distribution: none
- duration: 300ms
  mode: constant
  rate: 3/100ms
  jitter: 0
  distribution: none
- duration: 250ms
  mode: constant
  rate: 1/50ms
  jitter: 0
  distribution: none
`

// a stage whose tick interval is as long as the stage itself (one evaluation), then another stage
const longIntervalYAML = `scenario: s
limits:
  max-duration: 5s
  concurrency: 64
  max-iterations: 0
  ignore-dropped: true
stages:
- duration: 400ms
  mode: constant
  rate: 5/400ms
  jitter: 0
  distribution: none
- duration: 300ms
  mode: constant
  rate: 3/100ms
  jitter: 0
  distribution: none
`

// a users stage, then a rate-driven stage: the rate stage's first evaluation is at the boundary, not before
// (the users stage's iterations take 10 ms and are not counted: they carry the parameter C09_STAGE=u)
const usersThenRateYAML = `scenario: s
limits:
  max-duration: 5s
  concurrency: 8
  max-iterations: 0
  ignore-dropped: true
stages:
- duration: 200ms
  mode: users
  parameters:
    C09_STAGE: u
- duration: 300ms
  mode: constant
  rate: 3/100ms
  jitter: 0
  distribution: none
- duration: 100ms
  mode: users
  parameters:
    C09_STAGE: u
- duration: 200ms
  mode: staged
  stages: 0s:2,200ms:2
  iteration-frequency: 50ms
  jitter: 0
  distribution: none
`

// fileSuite: consecutive rate-driven stages of a config file. Each stage evaluates at
// its start and then once per interval until 20 ms before its end; the next stage
// starts at the nominal boundary, not earlier.
func fileSuite() hlib.Suite {
	return hlib.Suite{Name: "whole-run/config-file-stage-boundaries", Run: func(r *hlib.Rec) {
		ms := time.Millisecond
		for _, plan := range []struct {
			yaml, input string
			want        map[time.Duration]int
		}{
			{twoStagesYAML, "f1 run file: constant 2/100ms for 300ms, constant 3/100ms for 300ms, constant 1/50ms for 250ms; instant bodies, 64 workers",
				map[time.Duration]int{0: 2, 100 * ms: 2, 200 * ms: 2, 300 * ms: 3, 400 * ms: 3, 500 * ms: 3, 600 * ms: 1, 650 * ms: 1, 700 * ms: 1, 750 * ms: 1, 800 * ms: 1}},
			{longIntervalYAML, "f1 run file: constant 5/400ms for 400ms (one tick fits), constant 3/100ms for 300ms; instant bodies, 64 workers",
				map[time.Duration]int{0: 5, 400 * ms: 3, 500 * ms: 3, 600 * ms: 3}},
			{usersThenRateYAML, "f1 run file: users for 200ms, constant 3/100ms for 300ms, users for 100ms, staged 2 per 50ms for 200ms; 8 workers; only the rate-driven stages' iterations are listed",
				map[time.Duration]int{200 * ms: 3, 300 * ms: 3, 400 * ms: 3, 600 * ms: 2, 650 * ms: 2, 700 * ms: 2, 750 * ms: 2}},
		} {
			fileCase(r, plan.yaml, plan.input, plan.want)
		}
	}}
}

func fileCase(r *hlib.Rec, yaml, input string, want map[time.Duration]int) {
	{
		if !r.Mine() {
			return
		}
		r.Eval()
		r.SampleCase(input)
		var t0 int64 = -1
		begins := map[time.Duration]int{}
		rs := &hlib.RunSpec{Mode: "file", FileYAML: yaml, Quiet: true, CompletionTimeout: time.Second}
		rs.ScenarioFn = func(*f1testing.T) f1testing.RunFn {
			t0 = vrt.Clock()
			return func(*f1testing.T) {
				if os.Getenv("C09_STAGE") == "u" {
					vtime.Sleep(10 * time.Millisecond) // an iteration of a users stage: takes time, not listed
					return
				}
				begins[time.Duration(vrt.Clock()-t0)]++
			}
		}
		res := hlib.RunOnce(rs, -1, 0, 10*time.Minute)
		if res.BuildErr != nil || res.Out.Status != vrt.StOK || t0 < 0 {
			r.Fail("C09/run-broken", "file", fmt.Sprint(res.BuildErr, res.Out.Status, res.Out.Crash, res.Out.Detail), input)
			return
		}
		if fmt.Sprint(begins) != fmt.Sprint(want) {
			kind := "tick-values"
			for at := range begins {
				if _, ok := want[at]; !ok {
					kind = "evaluation-off-the-stage-grid"
				}
			}
			r.Fail("C09/whole-run-cadence", "config-file/"+kind, fmt.Sprintf("iterations started at %v, the stages' ticks allow %v", begins, want), input)
		}
		r.Distinct(input)
		r.Sample(map[string]any{"run": input, "started_at": fmt.Sprint(begins)})
	}
}

func suites(string) []hlib.Suite { return []hlib.Suite{suite(), fileSuite()} }

func main() { hlib.EnumMain("C09", suites) }
