package hlib

import (
	"encoding/json"
	"flag"
	"fmt"
	"os"
	"sort"
	"strings"
	"time"
)

// E2 ("enum"): bounded-exhaustive enumeration of inputs / operation sequences
// against a reference model. A Suite enumerates its whole finite space in a
// fixed, simplest-first order (never samples), counts evaluations and distinct
// non-trivial cases, and records findings with a key specific to the failing
// input.

type EnumFinding struct {
	Oracle string `json:"oracle"`
	Key    string `json:"key"`
	Msg    string `json:"msg"`
	Input  string `json:"input"`
	Cost   int    `json:"cost"`
	Count  int64  `json:"count"`
}

type Rec struct {
	Name        string
	Evaluations int64
	Transitions int64
	distinct    map[string]struct{}
	findings    map[string]*EnumFinding
	samples     []any
	deadline    time.Time
	expired     bool
	shard       int
	shards      int
	idx         int64
	ncase       int
	Note        string
}

// Mine reports whether the next top-level case belongs to this shard.
func (r *Rec) Mine() bool {
	i := r.idx
	r.idx++
	return r.shards <= 1 || int(i%int64(r.shards)) == r.shard
}

// Eval counts one evaluated case.
func (r *Rec) Eval() { r.Evaluations++; r.Transitions++ }

// Step counts one additional operation applied within a case.
func (r *Rec) Step() { r.Transitions++ }

// Distinct records a class of non-trivial cases (by the suite's own rule).
func (r *Rec) Distinct(class string) {
	if len(r.distinct) < 2_000_000 {
		r.distinct[class] = struct{}{}
	}
}

// Sample keeps a few actual cases for the evidence file.
func (r *Rec) Sample(x any) {
	if len(r.samples) < 6 {
		r.samples = append(r.samples, x)
	}
}

// SampleCase keeps the first few actual cases (as evaluated) for the evidence file.
func (r *Rec) SampleCase(input string) {
	if r.ncase < 3 {
		r.ncase++
		r.samples = append([]any{map[string]any{"actual_case": input}}, r.samples...)
	}
}

// Fail records a violation. keyDetail must identify the failing input (class).
func (r *Rec) Fail(oracle, keyDetail, msg, input string) {
	k := oracle + ":" + keyDetail
	if f, ok := r.findings[k]; ok {
		f.Count++
		return
	}
	if len(r.findings) >= 50 {
		return
	}
	r.findings[k] = &EnumFinding{Oracle: oracle, Key: k, Msg: msg, Input: input, Count: 1}
}

// Expired reports whether the wall-clock budget is used up (the suite should
// stop; the run is then reported as not exhaustive).
func (r *Rec) Expired() bool {
	if r.expired {
		return true
	}
	if r.Evaluations&0x3ff == 0 && time.Now().After(r.deadline) {
		r.expired = true
	}
	return r.expired
}

// Catch runs f and reports a panic as (true, value).
func Catch(f func()) (panicked bool, val any) {
	defer func() {
		if v := recover(); v != nil {
			panicked, val = true, v
		}
	}()
	f()
	return false, nil
}

type Suite struct {
	Name   string
	Run    func(r *Rec)
	Weight int
}

type enumReport struct {
	Name        string         `json:"name"`
	Evaluations int64          `json:"evaluations"`
	Distinct    int            `json:"distinct_nontrivial"`
	States      int            `json:"states"`
	Transitions int64          `json:"transitions"`
	Exhaustive  bool           `json:"exhaustive"`
	Stopped     string         `json:"stopped_early,omitempty"`
	Findings    []*EnumFinding `json:"findings,omitempty"`
	Samples     []any          `json:"samples,omitempty"`
	Note        string         `json:"note,omitempty"`
}

// EnumMain is the entry point of an E2 harness binary.
func EnumMain(property string, gen func(tier string) []Suite) {
	tier := flag.String("tier", "quick", "quick|thorough")
	budget := flag.Float64("budget", 60, "wall-clock budget in seconds")
	_ = flag.Int64("seed", 0, "recorded only; nothing is sampled")
	shard := flag.String("shard", "0/1", "i/n")
	replay := flag.String("replay", "", "replay file (re-runs the suite and reports the recorded key)")
	only := flag.String("only", "", "run only suites whose name contains this")
	flag.Parse()
	var si, sn int
	fmt.Sscanf(*shard, "%d/%d", &si, &sn)
	if sn < 1 {
		sn = 1
	}
	var wantKey, wantSuite string
	if *replay != "" {
		b, err := os.ReadFile(*replay)
		if err != nil {
			fmt.Fprintln(os.Stderr, err)
			os.Exit(2)
		}
		var f struct {
			Key      string `json:"key"`
			Scenario string `json:"scenario"`
		}
		if err := json.Unmarshal(b, &f); err != nil {
			fmt.Fprintln(os.Stderr, err)
			os.Exit(2)
		}
		wantKey, wantSuite = f.Key, f.Scenario
		si, sn = 0, 1
		*budget = 3600
	}
	suites := gen(*tier)
	if wantSuite != "" {
		found := false
		for _, t := range []string{"quick", "thorough"} {
			for _, s := range gen(t) {
				if s.Name == wantSuite && !found {
					suites = []Suite{s}
					found = true
				}
			}
		}
	}
	start := time.Now()
	total := time.Duration(*budget * float64(time.Second))
	wsum := 0
	var sel []Suite
	for _, s := range suites {
		if *only != "" && !strings.Contains(s.Name, *only) {
			continue
		}
		if s.Weight == 0 {
			s.Weight = 1
		}
		wsum += s.Weight
		sel = append(sel, s)
	}
	var out struct {
		Property  string       `json:"property"`
		Tier      string       `json:"tier"`
		Scenarios []enumReport `json:"scenarios"`
	}
	out.Property, out.Tier = property, *tier
	for _, s := range sel {
		remaining := total - time.Since(start)
		if remaining < 0 {
			remaining = 0
		}
		share := remaining * time.Duration(s.Weight) / time.Duration(wsum)
		wsum -= s.Weight
		r := &Rec{Name: s.Name, distinct: map[string]struct{}{}, findings: map[string]*EnumFinding{}, deadline: time.Now().Add(share), shard: si, shards: sn}
		s.Run(r)
		rep := enumReport{Name: s.Name, Evaluations: r.Evaluations, Distinct: len(r.distinct), States: len(r.distinct), Transitions: r.Transitions,
			Exhaustive: !r.expired, Samples: r.samples, Note: r.Note}
		if r.expired {
			rep.Stopped = "wall-clock budget"
		}
		keys := make([]string, 0, len(r.findings))
		for k := range r.findings {
			keys = append(keys, k)
		}
		sort.Strings(keys)
		for _, k := range keys {
			rep.Findings = append(rep.Findings, r.findings[k])
		}
		out.Scenarios = append(out.Scenarios, rep)
	}
	if wantKey != "" {
		for _, sc := range out.Scenarios {
			for _, f := range sc.Findings {
				fmt.Printf("finding %s: %s\n  input: %s\n", f.Key, f.Msg, f.Input)
				if f.Key == wantKey {
					fmt.Printf("VIOLATION property=%s replay=%s\n", property, *replay)
					os.Exit(1)
				}
			}
		}
		fmt.Println("recorded violation did not reproduce on this tree")
		os.Exit(0)
	}
	if err := json.NewEncoder(os.Stdout).Encode(out); err != nil {
		fmt.Fprintln(os.Stderr, err)
		os.Exit(2)
	}
}
