// Package hlib holds helpers shared by the verification harnesses.
package hlib

import (
	"context"
	"io"
	"log/slog"

	"github.com/sirupsen/logrus"

	"github.com/form3tech-oss/f1/v2/internal/metrics"
)

type discardHandler struct{}

func (discardHandler) Enabled(context.Context, slog.Level) bool  { return false }
func (discardHandler) Handle(context.Context, slog.Record) error { return nil }
func (d discardHandler) WithAttrs([]slog.Attr) slog.Handler      { return d }
func (d discardHandler) WithGroup(string) slog.Handler           { return d }

// DiscardLogger is an slog logger that drops everything without formatting.
func DiscardLogger() *slog.Logger { return slog.New(discardHandler{}) }

func DiscardLogrus() *logrus.Logger {
	l := logrus.New()
	l.SetOutput(io.Discard)
	l.SetLevel(logrus.PanicLevel)
	return l
}

// T.Time records its stage metric into the process-wide metrics instance, which
// f1.New initialises; without it every T.Time call in a harness would panic.
func init() { metrics.Init(true) }
