// Package hlib holds helpers shared by the verification harnesses.
package hlib

import (
	"os"
	"context"
	"io"
	"log/slog"

	"github.com/sirupsen/logrus"

	"github.com/form3tech-oss/f1/v2/internal/metrics"
	"github.com/form3tech-oss/f1/v2/internal/verifshim/vctx"
	"github.com/form3tech-oss/f1/v2/internal/verifshim/vrt"
)

type discardHandler struct{}

func (discardHandler) Enabled(context.Context, slog.Level) bool  { return false }
func (discardHandler) Handle(context.Context, slog.Record) error { return nil }
func (d discardHandler) WithAttrs([]slog.Attr) slog.Handler      { return d }
func (d discardHandler) WithGroup(string) slog.Handler           { return d }

// DiscardLogger is an slog logger that drops everything without formatting.
func DiscardLogger() *slog.Logger { return slog.New(discardHandler{}) }

func DiscardLogrus() *logrus.Logger {
	l := logrus.New()
	l.SetOutput(io.Discard)
	l.SetLevel(logrus.PanicLevel)
	return l
}

// T.Time records its stage metric into the process-wide metrics instance, which
// f1.New initialises; without it every T.Time call in a harness would panic.
// (A child process that goes through f1.New itself - C16's public-API suite - opts out, because the
// instance can be initialised only once per process.)
func init() {
	if os.Getenv("VERIF_NO_METRICS_INIT") == "" {
		metrics.Init(true)
	}
}

// StopWhenDone plays the caller's side of a pool whose contract is "call Stop
// once the context Start returned has ended" (a refactoring may move the pool's
// own watcher goroutine to the caller, as api.NewIterationWorker would then do):
// if pool has an exported Stop method, a thread waits for ctx and calls it, and
// the returned function blocks until that call has returned (the trigger
// function returning, which Run.run waits for before it waits for completion).
// With the pool as it is in the repository nothing is started and the returned
// function returns at once.
func StopWhenDone(ctx vctx.Context, pool any) (wait func()) {
	st, ok := pool.(interface{ Stop() })
	if !ok {
		return func() {}
	}
	done := false
	vrt.GoNamed("caller-stop", func() {
		vrt.Recv(ctx.Done())
		st.Stop()
		done = true
	})
	return func() { vrt.WaitUntil("caller-stop-returned", func() bool { return done }) }
}
