package hlib

import (
	"context"
	"fmt"
	"log/slog"
	"os"
	"time"

	"github.com/prometheus/client_golang/prometheus"
	"github.com/spf13/pflag"

	"github.com/form3tech-oss/f1/v2/internal/envsettings"
	"github.com/form3tech-oss/f1/v2/internal/metrics"
	"github.com/form3tech-oss/f1/v2/internal/options"
	"github.com/form3tech-oss/f1/v2/internal/run"
	"github.com/form3tech-oss/f1/v2/internal/trigger/api"
	"github.com/form3tech-oss/f1/v2/internal/trigger/constant"
	"github.com/form3tech-oss/f1/v2/internal/trigger/file"
	"github.com/form3tech-oss/f1/v2/internal/trigger/gaussian"
	"github.com/form3tech-oss/f1/v2/internal/trigger/ramp"
	"github.com/form3tech-oss/f1/v2/internal/trigger/staged"
	"github.com/form3tech-oss/f1/v2/internal/trigger/users"
	"github.com/form3tech-oss/f1/v2/internal/ui"
	"github.com/form3tech-oss/f1/v2/internal/verifshim/vctx"
	"github.com/form3tech-oss/f1/v2/internal/verifshim/vrt"
	"github.com/form3tech-oss/f1/v2/internal/verifshim/vtime"
	"github.com/form3tech-oss/f1/v2/pkg/f1/scenarios"
	f1testing "github.com/form3tech-oss/f1/v2/pkg/f1/testing"
)

// captureHandler turns every structured log record that f1's output emits
// into an entry of the execution's ordered event log ("display <message>").
type captureHandler struct {
	quiet bool
}

func (captureHandler) Enabled(_ context.Context, l slog.Level) bool { return l >= slog.LevelInfo }
func (h captureHandler) Handle(_ context.Context, r slog.Record) error {
	if vrt.Aborting() {
		return nil
	}
	vrt.LogQuiet("display " + r.Message)
	return nil
}
func (h captureHandler) WithAttrs([]slog.Attr) slog.Handler { return h }
func (h captureHandler) WithGroup(string) slog.Handler      { return h }

// CaptureOutput is a ui.Output whose Display calls end up in the event log.
func CaptureOutput() *ui.Output {
	return ui.NewOutput(slog.New(captureHandler{}), ui.NewDiscardPrinter(), false, true)
}

// RunSpec describes one whole run.
type RunSpec struct {
	Mode              string            // constant | users | staged | ramp | gaussian | file
	Flags             map[string]string // trigger flags (constant: rate, distribution, jitter; staged: stages, iterationFrequency, ...)
	FileYAML          string            // file mode: the config document
	Opts              options.RunOptions
	CompletionTimeout time.Duration
	ScenarioFn        f1testing.ScenarioFn
	Metrics           *metrics.Metrics // optional: reuse an instance across runs
	Labels            map[string]string
	Quiet             bool   // discard output instead of capturing it
	Scenario          string // scenario name (default "s")
	// optional: the registry to run from (the same registered scenario object run
	// more than once); ScenarioFn is ignored then
	Scenarios *scenarios.Scenarios
	// optional: the output the run displays on (instead of the capturing / discarding one)
	Output *ui.Output
	// optional: scenario logs go to this file instead of the output (not verbose), which is
	// the configuration in which an interactive output prints the rendered views
	LogFile string
	// optional: push-gateway settings (what PROMETHEUS_PUSH_GATEWAY / _NAMESPACE / _LABEL_ID configure)
	Prometheus envsettings.Prometheus
}

// Built is a constructed run plus what the oracles need.
type Built struct {
	Run     *run.Run
	Trigger *api.Trigger
	Metrics *metrics.Metrics
	Reg     *prometheus.Registry
	Opts    options.RunOptions
}

func builderFor(mode string) (api.Builder, error) {
	switch mode {
	case "constant":
		return constant.Rate(), nil
	case "users":
		return users.Rate(), nil
	case "staged":
		return staged.Rate(), nil
	case "ramp":
		return ramp.Rate(), nil
	case "gaussian":
		return gaussian.Rate(ui.NewDiscardOutput()), nil
	}
	return api.Builder{}, fmt.Errorf("unknown mode %s", mode)
}

// BuildTrigger constructs the trigger through the real builder.
func (rs *RunSpec) BuildTrigger() (*api.Trigger, options.RunOptions, error) {
	opts := rs.Opts
	if rs.Mode == "file" {
		// the real builder of `f1 run file <config>`: reads the document from a file, parses it
		// and fills the trigger's options, which run_cmd.go copies into the run options
		b := file.Rate(ui.NewDiscardOutput())
		if err := b.Flags.Parse([]string{cfgPath(rs.FileYAML)}); err != nil {
			return nil, opts, err
		}
		tr, err := b.New(b.Flags)
		if err != nil {
			return nil, opts, err
		}
		opts.Scenario = tr.Options.Scenario
		opts.MaxDuration = tr.Options.MaxDuration
		opts.Concurrency = tr.Options.Concurrency
		opts.MaxIterations = tr.Options.MaxIterations
		opts.MaxFailures = tr.Options.MaxFailures
		opts.MaxFailuresRate = tr.Options.MaxFailuresRate
		opts.IgnoreDropped = tr.Options.IgnoreDropped
		return tr, opts, nil
	}
	b, err := builderFor(rs.Mode)
	if err != nil {
		return nil, opts, err
	}
	fl := b.Flags
	if fl == nil {
		fl = pflag.NewFlagSet(rs.Mode, pflag.ContinueOnError)
	}
	for k, v := range rs.Flags {
		if err := fl.Set(k, v); err != nil {
			return nil, opts, fmt.Errorf("flag %s=%s: %w", k, v, err)
		}
	}
	tr, err := b.New(fl)
	return tr, opts, err
}

// Build constructs the run (scenario "s").
func (rs *RunSpec) Build() (*Built, error) {
	tr, opts, err := rs.BuildTrigger()
	if err != nil {
		return nil, err
	}
	if opts.Scenario == "" {
		opts.Scenario = rs.Scenario
	}
	if opts.Scenario == "" {
		opts.Scenario = "s"
	}
	opts.Verbose = rs.LogFile == "" // log to the output, not to a file, unless the spec names one
	m := rs.Metrics
	var reg *prometheus.Registry
	if m == nil {
		reg = prometheus.NewRegistry()
		m = metrics.NewInstance(reg, true, rs.Labels)
	}
	scs := rs.Scenarios
	if scs == nil {
		scs = scenarios.New().Add(&scenarios.Scenario{Name: opts.Scenario, ScenarioFn: rs.ScenarioFn})
	}
	out := CaptureOutput()
	if rs.Quiet {
		out = ui.NewOutput(DiscardLogger(), ui.NewDiscardPrinter(), false, true)
	}
	if rs.Output != nil {
		out = rs.Output
	}
	ct := rs.CompletionTimeout
	if ct == 0 {
		ct = 10 * time.Second
	}
	r, err := run.NewRun(opts, scs, tr, ct, envsettings.Settings{Log: envsettings.Log{FilePath: rs.LogFile}, Prometheus: rs.Prometheus}, m, out)
	if err != nil {
		return nil, err
	}
	return &Built{Run: r, Trigger: tr, Metrics: m, Reg: reg, Opts: opts}, nil
}

// IterationCounts gathers the iteration metric's sample counts per result label.
func IterationCounts(reg prometheus.Gatherer) (success, fail, dropped uint64) {
	mfs, err := reg.Gather()
	if err != nil {
		panic(err)
	}
	for _, mf := range mfs {
		if mf.GetName() != "form3_loadtest_iteration" {
			continue
		}
		for _, m := range mf.GetMetric() {
			var result, stage string
			for _, l := range m.GetLabel() {
				switch l.GetName() {
				case "result":
					result = l.GetValue()
				case "stage":
					stage = l.GetValue()
				}
			}
			if stage != "iteration" {
				continue
			}
			n := m.GetSummary().GetSampleCount()
			switch result {
			case "success":
				success += n
			case "fail":
				fail += n
			case "dropped":
				dropped += n
			}
		}
	}
	return
}

// RunResult is what one whole run did on the default schedule.
type RunResult struct {
	Out        *vrt.Outcome
	Success    uint64
	Fail       uint64
	Dropped    uint64
	Failed     bool
	Err        error
	DoErr      error
	BuildErr   error
	Reg        *prometheus.Registry
	ReturnedAt time.Duration
}

// CancelCurrentRun cancels the context of the run RunOnce is executing (for
// scenario code that plays the caller interrupting at a precise point, e.g.
// from inside setup). No-op outside RunOnce.
var CancelCurrentRun = func() {}

// RunOnce builds the run described by rs and executes Do once on the default
// schedule in virtual time. cancelAt >= 0: the caller cancels then. After Do
// returns the clock runs on for observe.
func RunOnce(rs *RunSpec, cancelAt, observe time.Duration, horizon time.Duration) *RunResult {
	res := &RunResult{}
	res.Out = vrt.RunDefault(func() {
		b, err := rs.Build()
		if err != nil {
			res.BuildErr = err
			return
		}
		res.Reg = b.Reg
		ctx, cancel := vctx.WithCancel(vctx.Background())
		defer cancel()
		CancelCurrentRun = cancel
		defer func() { CancelCurrentRun = func() {} }()
		if cancelAt >= 0 {
			vrt.GoNamed("caller-cancel", func() {
				if cancelAt > 0 {
					vtime.Sleep(cancelAt)
				}
				cancel()
			})
		}
		r, err := b.Run.Do(ctx)
		res.ReturnedAt = time.Duration(vrt.Clock())
		vrt.LogQuiet("do-returned")
		res.DoErr = err
		if r != nil {
			snap := r.Snapshot()
			res.Success, res.Fail, res.Dropped = snap.SuccessfulIterationDurations.Count, snap.FailedIterationDurations.Count, snap.DroppedIterationCount
			res.Failed = r.Failed()
			res.Err = r.Error()
		}
		if observe > 0 {
			vtime.Sleep(observe)
		}
	}, horizon, 0)
	return res
}

// cfgPath returns a path the real config-file reader can open for doc. The
// document is written once per process to an unlinked temporary file that is
// kept open; /proc/self/fd/<n> re-opens it from the start, and nothing is left
// behind on disk.
var (
	cfgPaths = map[string]string{}
	cfgKeep  []*os.File
)

func cfgPath(doc string) string {
	if p, ok := cfgPaths[doc]; ok {
		return p
	}
	if len(cfgKeep) >= 200 {
		for _, f := range cfgKeep {
			f.Close()
		}
		cfgKeep, cfgPaths = nil, map[string]string{}
	}
	f, err := os.CreateTemp("", "f1cfg")
	if err != nil {
		vrt.Infra("config file: " + err.Error())
	}
	if _, err := f.WriteString(doc); err != nil {
		vrt.Infra("config file: " + err.Error())
	}
	os.Remove(f.Name())
	cfgKeep = append(cfgKeep, f)
	p := fmt.Sprintf("/proc/self/fd/%d", f.Fd())
	cfgPaths[doc] = p
	return p
}
