package hlib

import (
	"io"
	"time"

	"github.com/prometheus/client_golang/prometheus"

	"github.com/form3tech-oss/f1/v2/internal/envsettings"
	"github.com/form3tech-oss/f1/v2/internal/metrics"
	"github.com/form3tech-oss/f1/v2/internal/run"
	"github.com/form3tech-oss/f1/v2/internal/trigger"
	"github.com/form3tech-oss/f1/v2/internal/ui"
	"github.com/form3tech-oss/f1/v2/internal/verifshim/vctx"
	"github.com/form3tech-oss/f1/v2/internal/verifshim/vrt"
	"github.com/form3tech-oss/f1/v2/pkg/f1/scenarios"
	f1testing "github.com/form3tech-oss/f1/v2/pkg/f1/testing"
)

// CLIResult is what one `f1 run ...` invocation did under the default schedule.
type CLIResult struct {
	Err        error // what the cobra command returned
	Status     vrt.Status
	Crash      string
	Detail     string
	SetupCalls int
	Iterations int
	Reg        *prometheus.Registry
	Log        []string
}

// RunCLI executes the real `run` cobra command (all trigger builders
// registered, scenario "s") with args in virtual time on the default schedule.
// body decides what each iteration does.
func RunCLI(args []string, horizon time.Duration, body func(t *f1testing.T)) *CLIResult {
	return RunCLIScenario(args, horizon, func(*f1testing.T) f1testing.RunFn {
		return func(t *f1testing.T) {
			if body != nil {
				body(t)
			}
		}
	})
}

// RunCLIScenario is RunCLI with a full scenario function (setup included).
func RunCLIScenario(args []string, horizon time.Duration, scenario f1testing.ScenarioFn) *CLIResult {
	res := &CLIResult{}
	out := vrt.RunDefault(func() {
		reg := prometheus.NewRegistry()
		res.Reg = reg
		m := metrics.NewInstance(reg, true, nil)
		output := ui.NewOutput(DiscardLogger(), ui.NewDiscardPrinter(), false, true)
		scs := scenarios.New().Add(&scenarios.Scenario{Name: "s", ScenarioFn: func(t *f1testing.T) f1testing.RunFn {
			res.SetupCalls++
			fn := scenario(t)
			return func(t *f1testing.T) {
				res.Iterations++
				fn(t)
			}
		}})
		cmd := run.Cmd(scs, trigger.GetBuilders(output), envsettings.Settings{}, m, output)
		cmd.SetArgs(args)
		cmd.SetOut(io.Discard)
		cmd.SetErr(io.Discard)
		cmd.SilenceErrors = true
		cmd.SilenceUsage = true
		ctx, cancel := vctx.WithCancel(vctx.Background())
		defer cancel()
		CancelCurrentRun = cancel // scenario code may play the caller interrupting at a precise point
		defer func() { CancelCurrentRun = func() {} }()
		res.Err = cmd.ExecuteContext(ctx)
	}, horizon, 0)
	res.Status, res.Crash, res.Detail, res.Log = out.Status, out.Crash, out.Detail, out.Log
	return res
}
