// Harness for C18: the periodic runner fires only while running and is
// quiescent after Stop. Drives the real raterun.Runner in virtual time.
package main

import (
	"fmt"
	"strings"
	"time"

	"github.com/form3tech-oss/f1/v2/internal/raterun"
	"github.com/form3tech-oss/f1/v2/internal/verifshim/vctx"
	"github.com/form3tech-oss/f1/v2/internal/verifshim/vrt"
	"github.com/form3tech-oss/f1/v2/internal/verifshim/vtime"
)

type step struct {
	op string // "sleep", "restart", "stop", "cancel"
	d  time.Duration
}

func (s step) String() string {
	if s.op == "sleep" {
		return "sleep" + s.d.String()
	}
	return s.op
}

type cfg struct {
	scheds []raterun.Schedule
	fnDur  time.Duration
	script []step
	// only the first invocation takes fnDur, the later ones take no time (a slow first report, then
	// prompt ones: whatever ticks went by meanwhile are gone, the function is not invoked for them)
	firstSlow bool
}

func (c cfg) name() string {
	var ss []string
	for _, s := range c.scheds {
		ss = append(ss, fmt.Sprintf("%s/%s", s.StartDelay, s.Frequency))
	}
	var st []string
	for _, s := range c.script {
		st = append(st, s.String())
	}
	fn := c.fnDur.String()
	if c.firstSlow {
		fn = "first-" + fn + "-then-0s"
	}
	return fmt.Sprintf("runner/scheds=[%s]/fn=%s/script=%s", strings.Join(ss, " "), fn, strings.Join(st, ","))
}

// event log entries: "begin <freq ns> <clock>", "end <clock>", "start <clock>", "restart <clock>", "stopret <clock>", "cancel <clock>"

func scenario(c cfg) vrt.Scenario {
	body := func() {
		calls := 0
		fn := func(freq time.Duration) {
			vrt.Log(fmt.Sprintf("begin %d %d", int64(freq), vrt.Clock()))
			calls++
			if c.fnDur > 0 && (!c.firstSlow || calls == 1) {
				vtime.Sleep(c.fnDur)
			}
			vrt.Log(fmt.Sprintf("end %d", vrt.Clock()))
		}
		vrt.Log(fmt.Sprintf("new %d", vrt.Clock()))
		r, err := raterun.New(fn, c.scheds)
		if err != nil {
			panic(err)
		}
		ctx, cancel := vctx.WithCancel(vctx.Background())
		defer cancel()
		vrt.Log(fmt.Sprintf("start %d", vrt.Clock()))
		r.Start(ctx)
		otherStopper := false
		for _, s := range c.script {
			if s.op == "stop-in-thread" {
				otherStopper = true
			}
		}
		for _, s := range c.script {
			switch s.op {
			case "sleep":
				vtime.Sleep(s.d)
			case "restart":
				vrt.Log(fmt.Sprintf("restart %d", vrt.Clock()))
				r.Restart()
			case "stop-in-thread":
				vrt.GoNamed("other-stopper", func() { r.Stop() })
			case "stop":
				r.Stop()
				// (a concurrent Stop caller of the script itself is not a goroutine of the runner)
				others := vrt.LiveOthers()
				if otherStopper {
					others = 0
				}
				vrt.Log(fmt.Sprintf("stopret %d %d", vrt.Clock(), others))
			case "cancel":
				cancel()
				vrt.Log(fmt.Sprintf("cancel %d", vrt.Clock()))
			}
		}
		// observation window: three periods of the slowest schedule, plus the function's own duration
		var maxF time.Duration
		for _, s := range c.scheds {
			if s.Frequency > maxF {
				maxF = s.Frequency
			}
		}
		// (a select with both a buffered tick and the cancellation ready may serve up to
		// the fairness bound of further ticks, each taking the function's duration)
		vtime.Sleep(3*maxF + 6*c.fnDur + time.Millisecond)
		vrt.Log(fmt.Sprintf("observed %d", vrt.Clock()))
	}
	post := func(o *vrt.Outcome) { oracle(c, o) }
	return vrt.Scenario{Name: c.name(), Body: body, Post: post, Memo: true, Horizon: time.Minute}
}

func oracle(c cfg, o *vrt.Outcome) {
	switch o.Status {
	case vrt.StDeadlock:
		o.Fail("C18/deadlock", blockedOps(o.Detail), "deadlock: "+o.Detail)
		return
	case vrt.StCrash:
		o.Fail("C18/crash", "panic", o.Crash)
		return
	case vrt.StHorizon:
		o.Fail("C18/no-return", blockedOps(o.Detail), "driver did not finish: "+o.Detail)
		return
	}
	// nominal activation instants of each schedule, one set per generation
	// (New, then one per Restart). A slow runner may still be serving an older
	// generation when a Restart has been requested but not yet processed, so an
	// invocation is accepted if it fits the oldest live generation, else a newer
	// one (which kills the older ones). Greedy-oldest-first can only be lenient.
	type gen struct {
		act    []int64
		counts []int
		until  int64 // cost 0 only: the instant a Restart superseded this generation (-1: still current)
	}
	var gens []*gen
	newGen := func(t0 int64, withFirstDelay bool) {
		for _, old := range gens {
			if old.until < 0 {
				old.until = t0
			}
		}
		g := &gen{act: make([]int64, len(c.scheds)), counts: make([]int, len(c.scheds)), until: -1}
		at := t0
		for i, s := range c.scheds {
			if i > 0 || withFirstDelay {
				at += int64(s.StartDelay)
			}
			g.act[i] = at
		}
		gens = append(gens, g)
	}
	fits := func(g *gen, freq, t int64, strict bool) bool {
		for i, s := range c.scheds {
			if int64(s.Frequency) != freq || g.act[i] > t {
				continue
			}
			if strict && i+1 < len(c.scheds) && t > g.act[i+1] {
				continue // a prompt runner has moved on (equal instants may go either way)
			}
			if int64(g.counts[i]+1) <= (t-g.act[i])/freq {
				g.counts[i]++
				return true
			}
		}
		return false
	}
	hasRestart := false
	for _, st := range c.script {
		if st.op == "restart" {
			hasRestart = true
		}
	}
	var firstEnd int64 = -1  // when the first invocation returned
	var prevFirst int64 = -1 // begin of the previous invocation served from the first schedule (scripts without Restart)
	var begins [][2]int64    // (frequency, instant) of every invocation
	open := 0
	started, stopped, cancelled := false, false, false
	var stopClock int64
	for _, ev := range o.Log {
		f := strings.Fields(ev)
		var a, b int64
		if len(f) > 1 {
			fmt.Sscan(f[1], &a)
		}
		if len(f) > 2 {
			fmt.Sscan(f[2], &b)
		}
		switch f[0] {
		case "new":
			newGen(a, true)
		case "start":
			started = true
		case "restart":
			newGen(a, false)
		case "begin":
			freq, t := a, b
			begins = append(begins, [2]int64{freq, t})
			// Every invocation consumes a tick of its own, and the ticker keeps at most one tick that nobody has
			// taken yet: on the default schedule (the runner takes a tick and invokes at the same instant) a tick
			// instant of the schedule lies between the beginnings of two consecutive invocations. The first
			// schedule's tick instants are known exactly when nothing restarts it.
			if o.Cost == 0 && !hasRestart && len(gens) == 1 && freq == int64(c.scheds[0].Frequency) && (len(c.scheds) == 1 || t < gens[0].act[1]) {
				act := gens[0].act[0]
				if prevFirst >= 0 {
					lo := (prevFirst - act + freq - 1) / freq // first tick index at or after the previous beginning
					hi := (t - act) / freq                    // last tick index at or before this one
					if hi < lo || hi < 1 {
						o.Fail("C18/rate", "no-tick-between-invocations", fmt.Sprintf("invocations began at %dns and %dns; the schedule's ticks are at %dns + k x %dns and none lies between them: the function ran more than once for one tick", prevFirst, t, act, freq))
					}
				}
				prevFirst = t
			}
			if !started {
				o.Fail("C18/before-start", "invoked", "function invoked before Start")
			}
			if stopped {
				o.Fail("C18/invoked-after-stop", "begin", fmt.Sprintf("function invoked at %dns after Stop returned at %dns", t, stopClock))
			}
			if open > 0 {
				o.Fail("C18/overlap", "begin", "function invoked while a previous invocation is still executing")
			}
			open++
			ok := false
			for gi, g := range gens {
				// strictness only where the runner is prompt: default schedule and a function that
				// takes no time (while it executes the function the runner serves nothing else)
				strict := o.Cost == 0 && c.fnDur == 0
				if strict && g.until >= 0 && t > g.until {
					continue // a prompt runner has processed the Restart by now
				}
				// a runner that was executing the function when Restart was called processes it when
				// the function returns, at the latest after the select fairness bound (3) of further
				// buffered ticks: on the default schedule the old generation is dead 5 function
				// durations after the Restart
				if o.Cost == 0 && g.until >= 0 && !c.firstSlow && t > g.until+5*int64(c.fnDur) {
					continue
				}
				// only the first invocation is slow: once it has returned the runner is prompt again, and it has processed
				// every Restart requested meanwhile by the time the clock next moves
				if o.Cost == 0 && g.until >= 0 && c.firstSlow && firstEnd >= 0 && t > g.until && t > firstEnd {
					continue
				}
				if fits(g, freq, t, strict) {
					gens = gens[gi:]
					ok = true
					break
				}
			}
			if !ok {
				var acts [][]int64
				for _, g := range gens {
					acts = append(acts, g.act)
				}
				o.Fail("C18/rate", "tick", fmt.Sprintf("invocation at %dns with frequency %dns is not allowed by any active schedule (nominal activations per generation %v)", t, freq, acts))
			}
		case "end":
			open--
			if firstEnd < 0 {
				firstEnd = a
			}
		case "stopret":
			stopped = true
			stopClock = a
			if open > 0 {
				o.Fail("C18/executing-at-stop", "stopret", "Stop returned while the function is still executing")
			}
			if b > 0 {
				o.Fail("C18/goroutine-left", "at-stop-return", fmt.Sprintf("Stop returned while %d goroutine(s) of the runner still existed", b))
			}
		case "cancel":
			cancelled = true
		}
	}
	_ = cancelled
	exact(c, o, begins)
	for _, l := range o.Leaks {
		o.Fail("C18/goroutine-left", strings.SplitN(l, ":", 2)[1], "thread still alive after Stop/cancel and the observation window: "+l)
		break
	}
	for _, tm := range o.Timers {
		if strings.HasPrefix(tm, "ticker") || strings.HasPrefix(tm, "timer") {
			o.Fail("C18/timer-left", tm, "runner timer still armed after Stop/cancel: "+strings.Join(o.Timers, ","))
			break
		}
	}
}

// exact: on the default schedule and with a function that takes no time the runner is deterministic, and the
// invocations are exactly the ticks of whichever schedule is active: schedule i of a generation is active from its
// activation (New + start delays for the first generation; the Restart itself, without the first start delay, for
// a later one) until the next schedule's activation, a Restart, Stop or cancel. Skipped when a tick coincides with
// one of those instants (either order is legitimate).
func exact(c cfg, o *vrt.Outcome, begins [][2]int64) {
	if o.Cost != 0 || c.fnDur != 0 || o.Status != vrt.StOK {
		return
	}
	type mark struct {
		kind string
		at   int64
	}
	var marks []mark
	for _, ev := range o.Log {
		f := strings.Fields(ev)
		var a int64
		if len(f) > 1 {
			fmt.Sscan(f[1], &a)
		}
		switch f[0] {
		case "new", "restart", "stopret", "cancel", "observed":
			marks = append(marks, mark{f[0], a})
		}
	}
	var want [][2]int64
	tie := false
	for mi, m := range marks {
		if m.kind != "new" && m.kind != "restart" {
			if m.kind != "observed" {
				break // Stop / cancel: nothing afterwards
			}
			continue
		}
		end := marks[mi+1].at // the next mark ends this generation (Restart, Stop, cancel or the end of the observation)
		at := m.at
		for i, sc := range c.scheds {
			if i > 0 || m.kind == "new" {
				at += int64(sc.StartDelay)
			}
			until := end
			if i+1 < len(c.scheds) && at+int64(c.scheds[i+1].StartDelay) < until {
				until = at + int64(c.scheds[i+1].StartDelay)
			}
			for t := at + int64(sc.Frequency); t <= until; t += int64(sc.Frequency) {
				if t == until {
					tie = true
					break
				}
				want = append(want, [2]int64{int64(sc.Frequency), t})
			}
			if at >= end {
				if at == end {
					tie = true
				}
				break
			}
		}
	}
	if tie {
		return
	}
	same := len(want) == len(begins)
	for i := 0; same && i < len(want); i++ {
		same = want[i] == begins[i]
	}
	if !same {
		o.Fail("C18/rate", "not-the-active-schedule's-ticks", fmt.Sprintf("prompt runner, instant function: invocations (frequency ns, instant ns) %v, the active schedules' ticks are %v", begins, want))
	}
}

func blockedOps(detail string) string {
	var ops []string
	for _, p := range strings.Split(detail, "; ") {
		if i := strings.Index(p, ": "); i >= 0 {
			ops = append(ops, p[i+2:])
		}
	}
	return strings.Join(ops, "|")
}

func ms(n int) time.Duration { return time.Duration(n) * time.Millisecond }

func scenariosFor(tier string) []vrt.Scenario {
	s1 := []raterun.Schedule{{StartDelay: 0, Frequency: ms(100)}}
	s2 := []raterun.Schedule{{StartDelay: 0, Frequency: ms(100)}, {StartDelay: ms(250), Frequency: ms(50)}}
	s3 := []raterun.Schedule{{StartDelay: time.Nanosecond, Frequency: ms(80)}, {StartDelay: time.Second, Frequency: ms(250)}}
	s4 := []raterun.Schedule{{StartDelay: 0, Frequency: ms(100)}, {StartDelay: ms(200), Frequency: ms(50)}} // switch coincides with a tick
	// a first schedule that starts late: nothing may be invoked during its start delay
	s5 := []raterun.Schedule{{StartDelay: ms(300), Frequency: ms(50)}}
	s6 := []raterun.Schedule{{StartDelay: ms(250), Frequency: ms(100)}, {StartDelay: ms(200), Frequency: ms(50)}}
	sl := func(n int) step { return step{"sleep", ms(n)} }
	stop, cancel, restart := step{op: "stop"}, step{op: "cancel"}, step{op: "restart"}
	var out []vrt.Scenario
	add := func(b int, sc []raterun.Schedule, fn time.Duration, script ...step) {
		s := scenario(cfg{scheds: sc, fnDur: fn, script: script})
		s.Bound = b
		out = append(out, s)
	}
	addFirstSlow := func(b int, sc []raterun.Schedule, fn time.Duration, script ...step) {
		s := scenario(cfg{scheds: sc, fnDur: fn, script: script, firstSlow: true})
		s.Bound = b
		out = append(out, s)
	}
	if tier == "quick" {
		b := 1
		add(b, s1, 0, sl(250), stop)
		add(b, s1, ms(30), sl(100), stop) // Stop exactly when a tick is due
		add(b, s1, ms(30), sl(110), stop) // Stop while the function runs
		add(b, s1, ms(120), sl(350), stop)
		add(b, s1, 0, sl(199), cancel)
		add(b, s2, 0, sl(420), stop)
		add(b, s2, ms(30), sl(150), restart, sl(300), stop)
		add(b, s4, 0, sl(320), stop)
		add(b, s3, 0, sl(1300), stop)
		add(b, s1, 0, stop)
		add(b, s1, 0, restart, sl(101), cancel)
		add(b, s1, ms(30), sl(110), cancel, stop) // interrupted run: the parent context is cancelled, then Stop, with an invocation in flight
		add(b, s2, ms(30), sl(100), cancel, stop)
		add(b, s2, ms(30), sl(310), restart, sl(300), stop) // Restart while an invocation of the later schedule is in flight
		add(b, s2, ms(120), sl(400), restart, sl(900), stop)
		add(b, s5, 0, sl(520), stop)
		// Stop / cancel while the first schedule's start delay is still running (300 ms, and an hour)
		add(b, s5, 0, sl(100), stop)
		add(b, s5, 0, sl(100), cancel)
		add(b, []raterun.Schedule{{StartDelay: time.Hour, Frequency: ms(100)}}, 0, sl(50), stop)
		add(b, []raterun.Schedule{{StartDelay: time.Hour, Frequency: ms(100)}}, 0, sl(50), restart, sl(50), cancel)
		add(b, s2, 0, sl(150), restart, sl(600), stop)                         // after a Restart the later schedule is reached again
		add(b, s1, ms(120), sl(110), step{op: "stop-in-thread"}, sl(50), stop) // two Stop calls while an invocation is in flight
		add(b, s1, ms(120), sl(110), restart, restart, restart, stop)          // Restarts pile up while the function executes
		add(b, s6, ms(30), sl(300), restart, sl(600), stop)
		// a Restart with a first schedule that starts late: the first schedule is active again at once
		add(b, s6, 0, sl(330), restart, sl(630), stop)
		add(b, s5, 0, sl(420), restart, sl(230), stop)
		// one slow invocation (more than two periods), then prompt ones: one invocation per tick, no catching up
		s7 := []raterun.Schedule{{StartDelay: 0, Frequency: ms(50)}}
		addFirstSlow(b, s7, ms(158), sl(420), stop)
		addFirstSlow(b, s7, ms(158), sl(230), cancel)
		// the first invocation spans the next schedule's activation and a Restart: after it the first schedule is active
		// again for the whole start delay of the second
		addFirstSlow(b, s2, ms(200), sl(200), restart, sl(700), stop)
		// a later schedule with no start delay is entered at once, and the one after it after its own delay
		s8 := []raterun.Schedule{{StartDelay: 0, Frequency: ms(100)}, {StartDelay: 0, Frequency: ms(50)}, {StartDelay: ms(170), Frequency: ms(20)}}
		add(b, s8, 0, sl(400), stop)
		add(b, s8, 0, sl(120), restart, sl(300), stop)
		out = append(out, scenario(cfg{scheds: s2, fnDur: ms(30), script: []step{sl(150), restart, sl(300), stop}}).WithPlainPoints(1))
		out = append(out, scenario(cfg{scheds: s1, fnDur: ms(30), script: []step{sl(110), stop}}).WithPlainPoints(1))
		return out
	}
	for _, fn := range []time.Duration{0, ms(30), ms(120)} {
		for _, sc := range [][]raterun.Schedule{s1, s2, s4} {
			for _, d := range []int{99, 100, 101, 250} {
				add(3, sc, fn, sl(d), stop)
				add(3, sc, fn, sl(d), cancel)
				add(2, sc, fn, sl(d), restart, sl(d), stop)
			}
			add(3, sc, fn, stop)
			add(3, sc, fn, sl(110), cancel, stop)
			add(3, sc, fn, restart, stop)
			add(2, sc, fn, sl(150), restart, sl(1), restart, stop)
		}
	}
	add(2, s3, 0, sl(1300), stop)
	add(2, s3, ms(30), sl(1001), restart, sl(90), stop)
	s7 := []raterun.Schedule{{StartDelay: 0, Frequency: ms(50)}}
	for _, d := range []int{108, 158, 260} {
		addFirstSlow(2, s7, ms(d), sl(420), stop)
		addFirstSlow(2, s7, ms(d), sl(230), cancel)
		addFirstSlow(2, s2, ms(d), sl(700), stop)
	}
	add(2, s6, 0, sl(330), restart, sl(630), stop)
	add(2, s5, 0, sl(420), restart, sl(230), stop)
	add(2, s6, 0, sl(130), restart, sl(630), stop) // Restart during the first start delay
	for _, d := range []int{160, 200, 260} {
		addFirstSlow(2, s2, ms(200), sl(d), restart, sl(700), stop)
		addFirstSlow(2, s4, ms(200), sl(d), restart, sl(700), stop)
	}
	s8 := []raterun.Schedule{{StartDelay: 0, Frequency: ms(100)}, {StartDelay: 0, Frequency: ms(50)}, {StartDelay: ms(170), Frequency: ms(20)}}
	add(2, s8, 0, sl(400), stop)
	add(2, s8, ms(30), sl(400), stop)
	add(2, s8, 0, sl(120), restart, sl(300), stop)
	for _, fn := range []time.Duration{0, ms(30)} {
		add(2, s5, fn, sl(520), stop)
		add(2, s5, fn, sl(200), restart, sl(400), stop)
		add(2, s6, fn, sl(300), restart, sl(600), stop)
		add(2, s6, fn, sl(700), cancel, stop)
	}
	out = append(out, scenario(cfg{scheds: s2, fnDur: ms(30), script: []step{sl(150), restart, sl(300), stop}}).WithPlainPoints(2))
	out = append(out, scenario(cfg{scheds: s1, fnDur: ms(30), script: []step{sl(110), stop}}).WithPlainPoints(2))
	out = append(out, scenario(cfg{scheds: s2, fnDur: 0, script: []step{sl(260), cancel, stop}}).WithPlainPoints(2))
	for _, fn := range []time.Duration{ms(30), ms(120)} {
		for _, d := range []int{300, 310, 329, 330, 400} {
			add(2, s2, fn, sl(d), restart, sl(900), stop) // Restart around an in-flight invocation of the later schedule
		}
	}
	return out
}

func main() { vrt.Main("C18", scenariosFor) }
