// Harness for C08 (E2): the pass/fail verdict follows the documented failure
// tolerances for every (successful, failed, dropped) triple, error set and
// option combination. Real progress.Stats fed through Record, real run.Result.
package main

import (
	"errors"
	"fmt"
	"os"
	"path/filepath"
	"strconv"
	"strings"
	"time"

	"github.com/form3tech-oss/f1/v2/internal/verifshim/vrt"
	"github.com/form3tech-oss/f1/v2/internal/verifshim/vtime"
	"github.com/form3tech-oss/f1/v2/pkg/f1"
	f1testing "github.com/form3tech-oss/f1/v2/pkg/f1/testing"

	"github.com/form3tech-oss/f1/v2/internal/metrics"
	"github.com/form3tech-oss/f1/v2/internal/options"
	"github.com/form3tech-oss/f1/v2/internal/progress"
	"github.com/form3tech-oss/f1/v2/internal/run"
	"github.com/form3tech-oss/f1/v2/internal/verifharness/hlib"
)

var (
	maxFailuresAlpha = []uint64{0, 1, 2, 5}
	rateAlpha        = []int{0, 1, 5, 10, 33, 50, 99, 100}
	errSets          = []string{"none", "setup", "teardown", "both"}
)

// reference: the statement, in exact integer arithmetic
func refFailed(s, f, d uint64, errs string, ignoreDropped bool, mf uint64, mfr int) bool {
	total := s + f + d
	return errs != "none" ||
		(!ignoreDropped && d > 0) ||
		(mf == 0 && mfr == 0 && f > 0) ||
		(mf > 0 && f > mf) ||
		(mfr > 0 && total > 0 && f*100 > uint64(mfr)*total)
}

func verdictSuite(maxCount uint64) hlib.Suite {
	return hlib.Suite{Name: fmt.Sprintf("verdict/counts<=%d", maxCount), Run: func(r *hlib.Rec) {
		for s := uint64(0); s <= maxCount; s++ {
			for f := uint64(0); f <= maxCount; f++ {
				for d := uint64(0); d <= maxCount; d++ {
					if !r.Mine() {
						continue
					}
					if r.Expired() {
						return
					}
					stats := &progress.Stats{}
					for i := uint64(0); i < s; i++ {
						stats.Record(metrics.SuccessResult, int64(time.Millisecond))
					}
					for i := uint64(0); i < f; i++ {
						stats.Record(metrics.FailedResult, int64(time.Millisecond))
					}
					for i := uint64(0); i < d; i++ {
						stats.Record(metrics.DroppedResult, 0)
					}
					for _, errs := range errSets {
						for _, ign := range []bool{false, true} {
							for _, mf := range maxFailuresAlpha {
								for _, mfr := range rateAlpha {
									r.Eval()
									opts := options.RunOptions{IgnoreDropped: ign, MaxFailures: mf, MaxFailuresRate: mfr}
									want := refFailed(s, f, d, errs, ign, mf, mfr)
									var got, gotErr bool
									input := fmt.Sprintf("successful=%d failed=%d dropped=%d errors=%s ignore-dropped=%v max-failures=%d max-failures-rate=%d", s, f, d, errs, ign, mf, mfr)
									r.SampleCase(input)
									panicked, pv := hlib.Catch(func() {
										res := run.NewResult(opts, nil, stats)
										if errs == "setup" || errs == "both" {
											res.AddError(errors.New("setup failed"))
										}
										if errs == "teardown" || errs == "both" {
											res.AddError(errors.New("teardown failed"))
										}
										res.GetTotals()
										snap := res.Snapshot()
										if snap.SuccessfulIterationDurations.Count != s || snap.FailedIterationDurations.Count != f || snap.DroppedIterationCount != d {
											panic(fmt.Sprintf("harness: totals %d/%d/%d do not match the recorded counts", snap.SuccessfulIterationDurations.Count, snap.FailedIterationDurations.Count, snap.DroppedIterationCount))
										}
										got = res.Failed()
										gotErr = res.Error() != nil
									})
									// which clause decides: the non-trivial classes
									total := s + f + d
									class := fmt.Sprintf("want=%v err=%v drop=%v strict=%v mf=%v rate=%v zero=%v", want, errs != "none", !ign && d > 0,
										mf == 0 && mfr == 0 && f > 0, mf > 0 && f > mf, mfr > 0 && total > 0 && f*100 > uint64(mfr)*total, total == 0)
									r.Distinct(class)
									if panicked {
										r.Fail("C08/verdict-panics", fmt.Sprintf("total=%s/rate-set=%v", zeroOr(total), mfr > 0), fmt.Sprintf("verdict panics (%v) for %s", pv, input), input)
										continue
									}
									if gotErr != (errs != "none") {
										r.Fail("C08/error", errs, fmt.Sprintf("Error()!=nil is %v for %s", gotErr, input), input)
									}
									if got != want {
										kind := "reported-failed-but-should-pass"
										if want {
											kind = "reported-passed-but-should-fail"
										}
										r.Fail("C08/verdict", kind+"/"+decider(s, f, d, errs, ign, mf, mfr), fmt.Sprintf("Failed()=%v, the documented rule says %v for %s", got, want, input), input)
									}
								}
							}
						}
					}
					if s+f+d <= 3 || (f == 1 && s+f+d == 17) {
						r.Sample(map[string]any{"successful": s, "failed": f, "dropped": d, "options": "all 256 combinations of errors x ignore-dropped x max-failures x max-failures-rate"})
					}
				}
			}
		}
	}}
}

func zeroOr(t uint64) string {
	if t == 0 {
		return "0"
	}
	return ">0"
}

// decider names the clause(s) of the rule involved, to key findings.
func decider(s, f, d uint64, errs string, ign bool, mf uint64, mfr int) string {
	switch {
	case errs != "none":
		return "error"
	case !ign && d > 0:
		return "dropped"
	case mf == 0 && mfr == 0:
		return "no-tolerance"
	case mfr > 0 && mf == 0:
		return "rate"
	case mfr == 0:
		return "max-failures"
	}
	return "rate+max-failures"
}

// cliSuite: the exit status of the real `f1 run constant` command (an error
// returned by the cobra command) follows the same rule, for whole runs in
// virtual time with scripted outcomes.
// every way setup or teardown can fail
var phases = []string{"ok", "setup-fails", "teardown-fails", "setup-Fail", "setup-panics(string)", "setup-panics(error)", "teardown-Fail",
	"teardown-panics(string)", "teardown-panics(error)", "teardown-runtime-error",
	// the caller interrupts while setup is still running, and setup then fails / a cleanup stops with Fatal
	"interrupted-during-setup-which-then-fails", "teardown-Fatal"}

func cliSuite(full bool) hlib.Suite {
	return hlib.Suite{Name: fmt.Sprintf("cli-exit-status/full=%v", full), Weight: 2, Run: func(r *hlib.Rec) {
		mfs := []uint64{0, 1, 2}
		rates := []int{0, 33, 50}
		maxN := 2
		if full {
			maxN = 3
			rates = []int{0, 1, 33, 50, 99}
		}
		for ns := 0; ns <= maxN; ns++ {
			for nf := 0; nf <= maxN; nf++ {
				if ns+nf == 0 {
					continue
				}
				for _, drops := range []bool{false, true} {
					for _, phase := range phases {
						for _, ign := range []bool{false, true} {
							for _, mf := range mfs {
								for _, mfr := range rates {
									if !r.Mine() {
										continue
									}
									if r.Expired() {
										return
									}
									if !full && phase != "ok" && (mf != 0 || mfr != 0) {
										continue
									}
									r.Eval()
									args := []string{"constant", "s", "-v", "--distribution", "none", "--max-duration", "5s", "--concurrency", "1",
										"--max-iterations", fmt.Sprint(ns + nf), "--max-failures", fmt.Sprint(mf), "--max-failures-rate", fmt.Sprint(mfr)}
									if ign {
										args = append(args, "--ignore-dropped")
									}
									if drops {
										args = append(args, "--rate", "2/100ms") // two requests per tick, one slow worker: the second is dropped
									} else {
										args = append(args, "--rate", "1/100ms")
									}
									input := fmt.Sprintf("f1 run %s with %d passing then %d failing iterations, %s", strings.Join(args, " "), ns, nf, phase)
									r.SampleCase(input)
									res := hlib.RunCLIScenario(args, 60*time.Second, func(t *f1testing.T) f1testing.RunFn {
										switch phase {
										case "setup-fails":
											t.FailNow()
										case "setup-Fail":
											t.Fail()
										case "setup-panics(string)":
											panic("setup panics")
										case "setup-panics(error)":
											panic(errors.New("setup panics"))
										case "teardown-fails":
											t.Cleanup(func() { t.FailNow() })
										case "teardown-Fail":
											t.Cleanup(func() { t.Fail() })
										case "teardown-panics(string)":
											t.Cleanup(func() { panic("teardown panics") })
										case "teardown-panics(error)":
											t.Cleanup(func() { panic(errors.New("teardown panics")) })
										case "teardown-runtime-error":
											t.Cleanup(func() { var m map[string]int; m["x"] = 1 })
										case "teardown-Fatal":
											t.Cleanup(func() { t.Fatal(errors.New("cleanup gives up")) })
										case "interrupted-during-setup-which-then-fails":
											hlib.CancelCurrentRun()
											t.Error(errors.New("dependency not reachable"))
										}
										return func(t *f1testing.T) {
											id, _ := strconv.Atoi(t.Iteration)
											if drops {
												vtime.Sleep(150 * time.Millisecond)
											}
											if id > ns {
												t.Fail()
											}
										}
									})
									if res.Status != vrt.StOK {
										r.Fail("C08/cli-broken", phase, res.Status.String()+": "+res.Crash+res.Detail, input)
										continue
									}
									s, f, d := hlib.IterationCounts(res.Reg)
									errs := "none"
									if phase != "ok" {
										errs = "setup"
									}
									want := refFailed(s, f, d, errs, ign, mf, mfr)
									got := res.Err != nil
									if got != want {
										kind := "exit-0-but-should-fail"
										if got {
											kind = "error-but-should-pass"
										}
										r.Fail("C08/cli-exit-status", kind+"/"+decider(s, f, d, errs, ign, mf, mfr), fmt.Sprintf("command returned error=%v (%v); the run had successful=%d failed=%d dropped=%d, the documented rule says failed=%v", got, res.Err, s, f, d, want), input)
									}
									if drops && phase == "ok" && d == 0 {
										r.Fail("C08/harness", "no-drops", "the drops configuration produced no drop", input)
									}
									r.Distinct(fmt.Sprintf("%v %s d=%v ign=%v mf=%d mfr=%d f>0=%v", want, phase, d > 0, ign, mf, mfr, f > 0))
								}
							}
						}
					}
				}
			}
		}
		r.Sample("f1 run constant s --max-iterations N --max-failures M --max-failures-rate R [--ignore-dropped] with scripted outcomes, failing setup, failing teardown")
	}}
}

// publicAPISuite: the outermost entry point, f1.New().Add(...).ExecuteWithArgs(args),
// with and without the profiling flags: it returns an error exactly when the run
// is reported failed.
func publicAPISuite() hlib.Suite {
	return hlib.Suite{Name: "exit-status/f1.ExecuteWithArgs/profiling-flags", Run: func(r *hlib.Rec) {
		dir, err := os.MkdirTemp("", "c08prof")
		if err != nil {
			vrt.Infra("temp dir: " + err.Error())
		}
		defer os.RemoveAll(dir)
		// "gateway": PROMETHEUS_PUSH_GATEWAY names a gateway no push can reach (the URL does not
		// even parse, so nothing touches the network): a failed push is reported, it is not one of
		// the causes of a failed run
		for _, prof := range []string{"none", "cpuprofile", "memprofile", "both", "gateway"} {
			for _, outcome := range []string{"all-pass", "one-fails", "setup-fails", "teardown-fails", "dropped", "dropped-ignored"} {
				for _, mf := range []uint64{0, 2} {
					if !r.Mine() {
						continue
					}
					r.Eval()
					args := []string{"run", "constant", "s", "-v", "--distribution", "none", "--max-duration", "5s", "--concurrency", "1", "--max-iterations", "3", "--max-failures", fmt.Sprint(mf)}
					rate := "1/100ms"
					if strings.HasPrefix(outcome, "dropped") {
						rate = "2/100ms"
					}
					args = append(args, "--rate", rate)
					if outcome == "dropped-ignored" {
						args = append(args, "--ignore-dropped")
					}
					if prof == "cpuprofile" || prof == "both" {
						args = append(args, "--cpuprofile", filepath.Join(dir, "cpu.prof"))
					}
					if prof == "memprofile" || prof == "both" {
						args = append(args, "--memprofile", filepath.Join(dir, "mem.prof"))
					}
					input := "f1.New().Add(s).ExecuteWithArgs: " + strings.Join(args, " ") + " [" + outcome + "]"
					if prof == "gateway" {
						os.Setenv("PROMETHEUS_PUSH_GATEWAY", "http://no such gateway:9091/")
						input += " with an unreachable PROMETHEUS_PUSH_GATEWAY"
					}
					r.SampleCase(input)
					var gotErr error
					var s, f, d uint64
					out := vrt.RunDefault(func() {
						fw := f1.New().WithLogger(hlib.DiscardLogger())
						fw.Add("s", func(t *f1testing.T) f1testing.RunFn {
							if outcome == "setup-fails" {
								t.FailNow()
							}
							if outcome == "teardown-fails" {
								t.Cleanup(func() { t.FailNow() })
							}
							return func(t *f1testing.T) {
								if strings.HasPrefix(outcome, "dropped") {
									vtime.Sleep(150 * time.Millisecond)
								}
								if outcome == "one-fails" && t.Iteration == "2" {
									f++
									t.Fail()
									return
								}
								s++
							}
						})
						gotErr = fw.ExecuteWithArgs(args)
					}, 60*time.Second, 0)
					os.Unsetenv("PROMETHEUS_PUSH_GATEWAY")
					if out.Status != vrt.StOK {
						r.Fail("C08/cli-broken", "f1.ExecuteWithArgs", out.Status.String()+": "+out.Crash+out.Detail, input)
						continue
					}
					if strings.HasPrefix(outcome, "dropped") {
						d = 1 // at least one (two requests per tick, one slow worker)
					}
					errs := "none"
					if outcome == "setup-fails" || outcome == "teardown-fails" {
						errs = "setup"
					}
					want := refFailed(s, f, d, errs, outcome == "dropped-ignored", mf, 0)
					if got := gotErr != nil; got != want {
						kind := "nil-but-should-fail"
						if got {
							kind = "error-but-should-pass"
						}
						r.Fail("C08/cli-exit-status", kind+"/f1.ExecuteWithArgs/"+map[bool]string{true: "push-gateway-unreachable", false: "profiling=" + map[bool]string{true: "on", false: "off"}[prof != "none"]}[prof == "gateway"], fmt.Sprintf("ExecuteWithArgs returned %v; the run had %d successful, %d failed, dropped=%v, %s: the documented rule says failed=%v", gotErr, s, f, d > 0, outcome, want), input)
					}
					r.Distinct(fmt.Sprintf("%s %s mf=%d", prof, outcome, mf))
				}
			}
		}
	}}
}

// sameInstanceSuite: two (three) runs started one after another on ONE f1 value: every run's verdict follows its
// own command line, not the tolerances of the run before it.
func sameInstanceSuite() hlib.Suite {
	return hlib.Suite{Name: "exit-status/f1.ExecuteWithArgs/consecutive-runs-on-one-instance", Run: func(r *hlib.Rec) {
		base := []string{"run", "constant", "s", "--distribution", "none", "--max-duration", "5s", "--concurrency", "1", "--max-iterations", "4"}
		type runSpec struct {
			extra []string
			rate  string
		}
		tolerant := []runSpec{
			{[]string{"--max-failures", "10"}, "1/100ms"},
			{[]string{"--max-failures-rate", "100"}, "1/100ms"},
			{[]string{"--ignore-dropped", "--max-failures", "10"}, "2/100ms"},
			{[]string{"--max-failures", "0", "--max-failures-rate", "60"}, "1/100ms"},
		}
		strict := []runSpec{{nil, "1/100ms"}, {nil, "2/100ms"}, {[]string{"--max-failures", "0"}, "1/100ms"}}
		for ti, first := range tolerant {
			for si, second := range strict {
				for _, third := range []bool{false, true} {
					if !r.Mine() {
						continue
					}
					r.Eval()
					seq := []runSpec{first, second}
					if third {
						seq = append(seq, first)
					}
					var lines []string
					for _, x := range seq {
						lines = append(lines, strings.Join(append(append(append([]string{}, base...), "--rate", x.rate), x.extra...), " "))
					}
					input := "one f1.New().Add(s) value, ExecuteWithArgs called with: " + strings.Join(lines, "  THEN  ") + "  (iteration 2 of every run fails; 2/100ms with one slow worker drops)"
					r.SampleCase(input)
					var errs []error
					var counts [][3]uint64
					out := vrt.RunDefault(func() {
						var s, f uint64
						slow := false
						fw := f1.New().WithLogger(hlib.DiscardLogger())
						fw.Add("s", func(t *f1testing.T) f1testing.RunFn {
							return func(t *f1testing.T) {
								if slow {
									vtime.Sleep(150 * time.Millisecond)
								}
								if t.Iteration == "2" {
									f++
									t.Fail()
									return
								}
								s++
							}
						})
						for _, x := range seq {
							s, f, slow = 0, 0, x.rate == "2/100ms"
							args := append(append(append([]string{}, base...), "--rate", x.rate), x.extra...)
							errs = append(errs, fw.ExecuteWithArgs(args))
							d := uint64(0)
							if slow {
								d = 1
							}
							counts = append(counts, [3]uint64{s, f, d})
						}
					}, 120*time.Second, 0)
					if out.Status != vrt.StOK {
						r.Fail("C08/cli-broken", "f1.ExecuteWithArgs/same-instance", out.Status.String()+": "+out.Crash+out.Detail, input)
						continue
					}
					for i, x := range seq {
						var mf uint64
						var mfr int
						ign := false
						for k := 0; k < len(x.extra); k++ {
							switch x.extra[k] {
							case "--max-failures":
								fmt.Sscan(x.extra[k+1], &mf)
							case "--max-failures-rate":
								fmt.Sscan(x.extra[k+1], &mfr)
							case "--ignore-dropped":
								ign = true
							}
						}
						want := refFailed(counts[i][0], counts[i][1], counts[i][2], "none", ign, mf, mfr)
						if got := errs[i] != nil; got != want {
							kind := "nil-but-should-fail"
							if got {
								kind = "error-but-should-pass"
							}
							r.Fail("C08/cli-exit-status", kind+"/f1.ExecuteWithArgs/run-"+fmt.Sprint(i+1)+"-on-one-instance", fmt.Sprintf("run %d of %d on the same f1 value returned %v; it had %d successful, %d failed, dropped=%v and its own flags %v: the documented rule says failed=%v", i+1, len(seq), errs[i], counts[i][0], counts[i][1], counts[i][2] > 0, x.extra, want), input)
						}
					}
					r.Distinct(fmt.Sprintf("tolerant %d strict %d third=%v", ti, si, third))
				}
			}
		}
	}}
}

func suites(tier string) []hlib.Suite {
	if tier == "quick" {
		return []hlib.Suite{verdictSuite(20), spotSuite(100), cliSuite(false), cliFileSuite(false), publicAPISuite(), sameInstanceSuite()}
	}
	return []hlib.Suite{verdictSuite(64), spotSuite(1000), cliSuite(true), cliFileSuite(true), publicAPISuite(), sameInstanceSuite()}
}

const cliFileYAML = `scenario: s
default:
  jitter: 0
  distribution: none
limits:
  max-duration: 5s
  concurrency: 1
  max-iterations: %d
%s  ignore-dropped: %v
stages:
  - duration: 5s
    mode: constant
    rate: %s
`

// cliFileSuite: the same rule through `f1 run file <config>`, where the
// tolerances come from the config document's limits instead of flags.
func cliFileSuite(full bool) hlib.Suite {
	return hlib.Suite{Name: fmt.Sprintf("cli-exit-status-file-mode/full=%v", full), Weight: 2, Run: func(r *hlib.Rec) {
		// -1: the key is left out of the limits section (it then means 0), for each key separately
		mfs := []int{-1, 0, 1, 2}
		rates := []int{-1, 0, 33, 50}
		maxN := 2
		if full {
			maxN = 3
			rates = []int{-1, 0, 1, 33, 50, 99}
		}
		dir, err := os.MkdirTemp("", "c08file")
		if err != nil {
			vrt.Infra("temp dir: " + err.Error())
		}
		defer os.RemoveAll(dir)
		path := filepath.Join(dir, "config.yaml")
		for ns := 0; ns <= maxN; ns++ {
			for nf := 0; nf <= maxN; nf++ {
				if ns+nf == 0 {
					continue
				}
				for _, drops := range []bool{false, true} {
					for _, ign := range []bool{false, true} {
						for _, mfKey := range mfs {
							for _, mfrKey := range rates {
								mf, mfr, tolerances := uint64(max(mfKey, 0)), max(mfrKey, 0), ""
								if mfKey >= 0 {
									tolerances += fmt.Sprintf("  max-failures: %d\n", mfKey)
								}
								if mfrKey >= 0 {
									tolerances += fmt.Sprintf("  max-failures-rate: %d\n", mfrKey)
								}
								if !r.Mine() {
									continue
								}
								if r.Expired() {
									return
								}
								r.Eval()
								rate := "1/100ms"
								if drops {
									rate = "2/100ms"
								}
								doc := fmt.Sprintf(cliFileYAML, ns+nf, tolerances, ign, rate)
								if err := os.WriteFile(path, []byte(doc), 0o600); err != nil {
									vrt.Infra("write config: " + err.Error())
								}
								input := fmt.Sprintf("f1 run file config.yaml with limits max-iterations=%d max-failures=%d max-failures-rate=%d (-1: key omitted) ignore-dropped=%v, one constant stage %s, %d passing then %d failing iterations", ns+nf, mfKey, mfrKey, ign, rate, ns, nf)
								r.SampleCase(input)
								res := hlib.RunCLIScenario([]string{"file", "-v", path}, 60*time.Second, func(t *f1testing.T) f1testing.RunFn {
									return func(t *f1testing.T) {
										id, _ := strconv.Atoi(t.Iteration)
										if drops {
											vtime.Sleep(150 * time.Millisecond)
										}
										if id > ns {
											t.Fail()
										}
									}
								})
								if res.Status != vrt.StOK {
									r.Fail("C08/cli-broken", "file", res.Status.String()+": "+res.Crash+res.Detail, input)
									continue
								}
								s, f, d := hlib.IterationCounts(res.Reg)
								if int(s+f) != ns+nf {
									r.Fail("C08/harness", "file-iterations", fmt.Sprintf("the run did %d+%d iterations, expected %d", s, f, ns+nf), input)
									continue
								}
								want := refFailed(s, f, d, "none", ign, mf, mfr)
								got := res.Err != nil
								if got != want {
									kind := "exit-0-but-should-fail"
									if got {
										kind = "error-but-should-pass"
									}
									r.Fail("C08/cli-exit-status-file", kind+"/"+decider(s, f, d, "none", ign, mf, mfr), fmt.Sprintf("command returned error=%v (%v); the run had successful=%d failed=%d dropped=%d, the documented rule says failed=%v", got, res.Err, s, f, d, want), input)
								}
								if drops && d == 0 {
									r.Fail("C08/harness", "no-drops", "the drops configuration produced no drop", input)
								}
								r.Distinct(fmt.Sprintf("%v d=%v ign=%v mf=%d mfr=%d f>0=%v", want, d > 0, ign, mf, mfr, f > 0))
							}
						}
					}
				}
			}
		}
	}}
}

// spotSuite: the non-integral percentages the small grid cannot reach.
func spotSuite(maxTotal uint64) hlib.Suite {
	return hlib.Suite{Name: fmt.Sprintf("verdict/every-share-of-up-to-%d-iterations", maxTotal), Run: func(r *hlib.Rec) {
		for total := uint64(1); total <= maxTotal; total++ {
			for f := uint64(0); f <= total; f++ {
				if !r.Mine() {
					continue
				}
				stats := &progress.Stats{}
				for i := uint64(0); i < total-f; i++ {
					stats.Record(metrics.SuccessResult, 1000)
				}
				for i := uint64(0); i < f; i++ {
					stats.Record(metrics.FailedResult, 1000)
				}
				for mfr := 1; mfr <= 100; mfr++ {
					r.Eval()
					want := f*100 > uint64(mfr)*total
					input := fmt.Sprintf("successful=%d failed=%d dropped=0 max-failures-rate=%d", total-f, f, mfr)
					r.SampleCase(input)
					var got bool
					panicked, pv := hlib.Catch(func() {
						res := run.NewResult(options.RunOptions{MaxFailuresRate: mfr}, nil, stats)
						res.GetTotals()
						got = res.Failed()
					})
					r.Distinct(fmt.Sprintf("want=%v exact=%v", want, f*100%total == 0))
					if panicked {
						r.Fail("C08/verdict-panics", "spot", fmt.Sprint(pv), input)
					} else if got != want {
						kind := "reported-failed-but-should-pass"
						if want {
							kind = "reported-passed-but-should-fail"
						}
						r.Fail("C08/verdict", kind+"/rate", fmt.Sprintf("Failed()=%v, the documented rule says %v for %s (share %.3f%%)", got, want, input, float64(f)*100/float64(total)), input)
					}
				}
			}
		}
		r.Sample("1 failed of 17 at max-failures-rate 5 (5.88%)")
	}}
}

func main() { hlib.EnumMain("C08", suites) }
