// Harness for C20 (E2): combined scenarios run every component, in order, in
// setup and in each iteration. All programs of 1-3 components with a behaviour
// from {pass, Fail, FailNow, panic} per setup and per iteration function, run
// through the real workers.ActiveScenario (Setup, then two iterations).
package main

import (
	"errors"
	"fmt"
	"strings"

	"github.com/prometheus/client_golang/prometheus"

	"github.com/form3tech-oss/f1/v2/internal/metrics"
	"github.com/form3tech-oss/f1/v2/internal/progress"
	"github.com/form3tech-oss/f1/v2/internal/verifharness/hlib"
	"github.com/form3tech-oss/f1/v2/internal/workers"
	"github.com/form3tech-oss/f1/v2/pkg/f1"
	"github.com/form3tech-oss/f1/v2/pkg/f1/scenarios"
	f1testing "github.com/form3tech-oss/f1/v2/pkg/f1/testing"
)

var behaviours = []string{"pass", "Fail", "FailNow", "panic", "panic(error)", "Require-assertion", "FailNow-in-timed-stage", "panic-in-timed-stage", "runtime-error", "panic(int)", "Fatal(nil)", "Fatal(err)", "Errorf", "nil-RunFn", "panic(error-spelled-FailNow)", "passing-timed-stage"}

func act(t *f1testing.T, b string) {
	switch b {
	case "Fail":
		t.Fail()
	case "FailNow":
		t.FailNow()
	case "panic":
		panic("component panics")
	case "panic(error)":
		panic(errors.New("component panics"))
	case "panic(int)":
		panic(42)
	case "runtime-error":
		var m map[string]int
		m["x"] = 1
	case "panic(error-spelled-FailNow)":
		// a panic is a panic whatever its value says: the iteration stops and is reported failed
		panic(errors.New("FailNow"))
	case "passing-timed-stage":
		// a component that passes and times a stage: what an earlier component marked stays marked
		t.Time("stage", func() {})
	case "Fatal(nil)":
		// "the call returned a bad status and no error": Fatal stops the iteration whatever it is given
		t.Fatal(nil)
	case "Fatal(err)":
		t.Fatal(errors.New("component gives up"))
	case "Errorf":
		t.Errorf("component marks %s", "failure")
	case "Require-assertion":
		t.Require().True(false)
	case "FailNow-in-timed-stage":
		t.Time("stage", func() { t.FailNow() })
	case "panic-in-timed-stage":
		t.Time("stage", func() { panic("component panics") })
	}
}

func passes(b string) bool { return b == "pass" || b == "passing-timed-stage" }

func stops(b string) bool { return !passes(b) && b != "Fail" && b != "Errorf" && b != "nil-RunFn" }

// suite: all programs of minN..maxN components over the first nb behaviours; every
// program is set up and run twice from the same combined scenario value (two
// runs in one process: `ExecuteWithArgs` called twice).
func suite(minN, maxN, nb int) hlib.Suite {
	return hlib.Suite{Name: fmt.Sprintf("combine/%d-%d-components/%d-behaviours/two-runs-of-the-same-value", minN, maxN, nb), Run: func(r *hlib.Rec) {
		for n := minN; n <= maxN; n++ {
			total := 1
			for i := 0; i < 2*n; i++ {
				total *= nb
			}
			for code := 0; code < total; code++ {
				if !r.Mine() {
					continue
				}
				if r.Expired() {
					return
				}
				r.Eval()
				setupB, iterB := make([]string, n), make([]string, n)
				c := code
				for i := 0; i < n; i++ {
					setupB[i] = behaviours[c%nb]
					c /= nb
				}
				for i := 0; i < n; i++ {
					iterB[i] = behaviours[c%nb]
					c /= nb
				}
				input := fmt.Sprintf("setups=%v iterations=%v", setupB, iterB)
				r.SampleCase(input)
				var log []string
				var setupT *f1testing.T
				comps := make([]f1testing.ScenarioFn, n)
				for i := 0; i < n; i++ {
					i := i
					comps[i] = func(t *f1testing.T) f1testing.RunFn {
						if setupT == nil {
							setupT = t
						} else if setupT != t {
							log = append(log, "setup-handle-differs")
						}
						log = append(log, fmt.Sprintf("setup%d", i))
						act(t, setupB[i])
						if iterB[i] == "nil-RunFn" {
							// a setup-only component: it has no iteration function. Invoking it is a runtime error of
							// that component: the iteration stops there and is reported failed.
							return nil
						}
						return func(t *f1testing.T) {
							h := "iter"
							if t == setupT {
								h = "SETUPHANDLE"
							}
							log = append(log, fmt.Sprintf("%s%d@%s", h, i, t.Iteration))
							act(t, iterB[i])
							log = append(log, fmt.Sprintf("returned%d", i))
						}
					}
				}
				sc := &scenarios.Scenario{Name: "s", ScenarioFn: f1.CombineScenarios(comps...)}
				for runNo := 1; runNo <= 2; runNo++ {
					log, setupT = nil, nil
					input := fmt.Sprintf("%s run#%d of the same combined scenario", input, runNo)
					stats := &progress.Stats{}
					m := metrics.NewInstance(prometheus.NewRegistry(), false, nil)
					as := workers.NewActiveScenario(sc, m, stats, hlib.DiscardLogger(), hlib.DiscardLogrus())
					var failedIter []bool
					panicked, pv := hlib.Catch(func() {
						as.Setup()
						if as.Failed() {
							return
						}
						st := as.VerifNewIterationState()
						for it := 1; it <= 2; it++ {
							st.VerifT().Reset(fmt.Sprint(it))
							before := stats.Total().FailedIterationDurations.Count
							as.Run(st)
							failedIter = append(failedIter, stats.Total().FailedIterationDurations.Count > before)
						}
					})
					if panicked {
						r.Fail("C20/escapes", "panic", fmt.Sprintf("a component's panic escaped: %v", pv), input)
						continue
					}
					// reference
					var want []string
					setupFailed := false
					for i := 0; i < n; i++ {
						want = append(want, fmt.Sprintf("setup%d", i))
						if !passes(setupB[i]) && setupB[i] != "nil-RunFn" { // (as a setup behaviour "nil-RunFn" does nothing)
							setupFailed = true
						}
						if stops(setupB[i]) {
							break
						}
					}
					var wantFailed []bool
					if !setupFailed {
						for it := 1; it <= 2; it++ {
							f := false
							for i := 0; i < n; i++ {
								if iterB[i] == "nil-RunFn" {
									f = true
									break // the iteration stops at the component that has no iteration function
								}
								want = append(want, fmt.Sprintf("iter%d@%d", i, it))
								if !passes(iterB[i]) {
									f = true
								}
								if stops(iterB[i]) {
									break
								}
								want = append(want, fmt.Sprintf("returned%d", i))
							}
							wantFailed = append(wantFailed, f)
						}
					}
					if strings.Join(log, " ") != strings.Join(want, " ") {
						r.Fail("C20/order", classify(log, want), fmt.Sprintf("observed calls %v, expected %v", log, want), input)
					}
					if as.Failed() != setupFailed {
						r.Fail("C20/setup-verdict", fmt.Sprint(as.Failed()), fmt.Sprintf("setup reported failed=%v, expected %v", as.Failed(), setupFailed), input)
					}
					if fmt.Sprint(failedIter) != fmt.Sprint(wantFailed) {
						r.Fail("C20/iteration-verdict", "mismatch", fmt.Sprintf("iterations reported failed %v, expected %v", failedIter, wantFailed), input)
					}
					r.Distinct(fmt.Sprintf("n=%d setupstop=%v iterstop=%v", n, firstStop(setupB), firstStop(iterB)))
					if code < 3 && runNo == 1 {
						r.Sample(map[string]any{"setups": setupB, "iterations": iterB, "calls": log})
					}
				}
			}
		}
	}}
}

func firstStop(b []string) string {
	for i, x := range b {
		if stops(x) {
			return fmt.Sprintf("%d:%s", i, x)
		}
	}
	return "-"
}

func classify(got, want []string) string {
	for _, g := range got {
		if strings.Contains(g, "SETUPHANDLE") {
			return "iteration-got-setup-handle"
		}
		if g == "setup-handle-differs" {
			return "setups-got-different-handles"
		}
	}
	switch {
	case len(got) < len(want):
		return "missing-calls"
	case len(got) > len(want):
		return "extra-calls"
	}
	return "wrong-order"
}

func suites(tier string) []hlib.Suite {
	if tier == "quick" {
		return []hlib.Suite{suite(1, 2, 16), suite(3, 3, 5)}
	}
	return []hlib.Suite{suite(1, 2, 16), suite(3, 3, 10), suite(4, 4, 5)}
}

func main() { hlib.EnumMain("C20", suites) } // hlib initialises the process-wide metrics instance T.Time needs
