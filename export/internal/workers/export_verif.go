//go:build verif

package workers

import "github.com/form3tech-oss/f1/v2/pkg/f1/testing"

// Read-only accessors for the verification harnesses (added by overlay only).

func (s *ActiveScenario) VerifNewIterationState() *iterationState { return s.newIterationState() }

func (st *iterationState) VerifT() *testing.T { return st.t }

// VerifPending peeks at the pending-request counter without a scheduling point.
func (p *TriggerPool) VerifPending() int64 { return p.jobsToExecute.num.Peek() }

func (p *TriggerPool) VerifStopped() bool { return p.stopWorkers.Peek() }
