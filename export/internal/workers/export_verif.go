//go:build verif

package workers

import (
	"reflect"
	"unsafe"

	"github.com/form3tech-oss/f1/v2/pkg/f1/testing"
)

// Read-only accessors for the verification harnesses (added by overlay only).
// They look fields up by reflection so that a refactoring of the private
// structures (an atomic replaced by a mutex-protected integer, say) does not
// turn into a build failure of the harness.

func (s *ActiveScenario) VerifNewIterationState() *iterationState { return s.newIterationState() }

func (st *iterationState) VerifT() *testing.T { return st.t }

type peeker64 interface{ Peek() int64 }
type peekerBool interface{ Peek() bool }

// peekInt returns the first integer-valued field (a shim atomic or a plain
// integer) found in v, depth first.
func peekInt(v reflect.Value) (int64, bool) {
	if !v.CanAddr() {
		return 0, false
	}
	p := reflect.NewAt(v.Type(), unsafe.Pointer(v.UnsafeAddr()))
	if pk, ok := p.Interface().(peeker64); ok {
		return pk.Peek(), true
	}
	switch v.Kind() {
	case reflect.Int, reflect.Int64, reflect.Int32:
		return reflect.NewAt(v.Type(), unsafe.Pointer(v.UnsafeAddr())).Elem().Int(), true
	case reflect.Struct:
		if _, isBool := p.Interface().(peekerBool); isBool {
			return 0, false
		}
		for i := 0; i < v.NumField(); i++ {
			if v.Field(i).Type().PkgPath() == "github.com/form3tech-oss/f1/v2/internal/verifshim/vsync" {
				continue
			}
			if n, ok := peekInt(v.Field(i)); ok {
				return n, true
			}
		}
	}
	return 0, false
}

// field looks a private field of the pool up by name, trying the names a
// refactoring is likely to use; ok=false if none exists.
func field(p any, names ...string) (reflect.Value, bool) {
	v := reflect.ValueOf(p).Elem()
	for _, n := range names {
		if f := v.FieldByName(n); f.IsValid() {
			return f, true
		}
	}
	return reflect.Value{}, false
}

func peekBool(v reflect.Value) (bool, bool) {
	if !v.CanAddr() {
		return false, false
	}
	p := reflect.NewAt(v.Type(), unsafe.Pointer(v.UnsafeAddr()))
	if pk, ok := p.Interface().(peekerBool); ok {
		return pk.Peek(), true
	}
	if v.Kind() == reflect.Bool {
		return p.Elem().Bool(), true
	}
	return false, false
}

// VerifPending peeks at the pending-request counter without a scheduling point
// (ok=false: the structure no longer has a field the accessor recognises).
func (p *TriggerPool) VerifPendingOK() (int64, bool) {
	f, ok := field(p, "jobsToExecute", "pendingJobs", "pending", "jobs")
	if !ok {
		return 0, false
	}
	return peekInt(f)
}

func (p *TriggerPool) VerifPending() int64 {
	n, ok := p.VerifPendingOK()
	if !ok {
		panic("verif: cannot find the pending-request counter in TriggerPool")
	}
	return n
}

// VerifStopped peeks at the pool's stop flag.
func (p *TriggerPool) VerifStoppedOK() (bool, bool) {
	f, ok := field(p, "stopWorkers", "stopped", "stop")
	if !ok {
		return false, false
	}
	return peekBool(f)
}

func (p *TriggerPool) VerifStopped() bool {
	b, ok := p.VerifStoppedOK()
	if !ok {
		panic("verif: cannot find the stop flag in TriggerPool")
	}
	return b
}
