//go:build verif

package workers

import (
	"reflect"
	"unsafe"

	"github.com/form3tech-oss/f1/v2/pkg/f1/testing"
)

// Read-only accessors for the verification harnesses (added by overlay only).
// They look fields up by reflection so that a refactoring of the private
// structures (an atomic replaced by a mutex-protected integer, say) does not
// turn into a build failure of the harness.

func (s *ActiveScenario) VerifNewIterationState() *iterationState { return s.newIterationState() }

func (st *iterationState) VerifT() *testing.T { return st.t }

type peeker64 interface{ Peek() int64 }
type peekerBool interface{ Peek() bool }

// peekInt returns the first integer-valued field (a shim atomic or a plain
// integer) found in v, depth first.
func peekInt(v reflect.Value) (int64, bool) {
	if !v.CanAddr() {
		return 0, false
	}
	p := reflect.NewAt(v.Type(), unsafe.Pointer(v.UnsafeAddr()))
	if pk, ok := p.Interface().(peeker64); ok {
		return pk.Peek(), true
	}
	switch v.Kind() {
	case reflect.Int, reflect.Int64, reflect.Int32:
		return reflect.NewAt(v.Type(), unsafe.Pointer(v.UnsafeAddr())).Elem().Int(), true
	case reflect.Struct:
		if _, isBool := p.Interface().(peekerBool); isBool {
			return 0, false
		}
		for i := 0; i < v.NumField(); i++ {
			if v.Field(i).Type().PkgPath() == "github.com/form3tech-oss/f1/v2/internal/verifshim/vsync" {
				continue
			}
			if n, ok := peekInt(v.Field(i)); ok {
				return n, true
			}
		}
	}
	return 0, false
}

// VerifPending peeks at the pending-request counter without a scheduling point.
func (p *TriggerPool) VerifPending() int64 {
	n, ok := peekInt(reflect.ValueOf(&p.jobsToExecute).Elem())
	if !ok {
		panic("verif: cannot find the pending-request counter in TriggerPool.jobsToExecute")
	}
	return n
}

func (p *TriggerPool) VerifStopped() bool { return p.stopWorkers.Peek() }
