//go:build verif

package file

import (
	"time"

	"github.com/form3tech-oss/f1/v2/internal/trigger/api"
)

// Read-only accessors for the verification harnesses (added by overlay only).

func (r *RunnableStages) VerifTotalDuration() time.Duration { return r.stagesTotalDuration }
func (r *RunnableStages) VerifMaxFailures() uint64          { return r.maxFailures }
func (r *RunnableStages) VerifMaxFailuresRate() int         { return r.maxFailuresRate }

// VerifStagesWorker returns the trigger the file builder would run for the plan.
func (r *RunnableStages) VerifStagesWorker() api.WorkTriggerer { return newStagesWorker(r.Stages) }

type VerifStage struct {
	Rate              api.RateFunction
	Params            map[string]string
	StageDuration     time.Duration
	IterationDuration time.Duration
	UsersConcurrency  int
}

func (r *RunnableStages) VerifStages() []VerifStage {
	out := make([]VerifStage, len(r.Stages))
	for i, s := range r.Stages {
		out[i] = VerifStage{s.Rate, s.Params, s.StageDuration, s.IterationDuration, s.UsersConcurrency}
	}
	return out
}

// VerifStagesWorkerOf builds the stages trigger from hand-made stages.
func VerifStagesWorkerOf(stages []VerifStage) api.WorkTriggerer {
	rs := make([]runnableStage, len(stages))
	for i, s := range stages {
		rs[i] = runnableStage{Rate: s.Rate, Params: s.Params, StageDuration: s.StageDuration, IterationDuration: s.IterationDuration, UsersConcurrency: s.UsersConcurrency}
	}
	return newStagesWorker(rs)
}
