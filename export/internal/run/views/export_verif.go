//go:build verif

package views

// Read-only accessors for the verification harnesses (added by overlay only).

// VerifRender renders with the terminal (colours) or the plain template,
// independent of what stdin is.
func (vc *ViewContext[T]) VerifRender(tty bool) string {
	t := vc.view.notty
	if tty {
		t = vc.view.tty
	}
	return render(t, vc.data)
}

func (vc *ViewContext[T]) VerifData() T { return vc.data }
